----------------------------- MODULE MC_Deferred -----------------------------
(***************************************************************************)
(* All syntax trees with at most MaxOps operator nodes are built, compiled  *)
(* and run on the stack machine; the result must be the eager meaning of    *)
(* the tree.  Every tree is exported with its program and the stack after   *)
(* each instruction for replay on the real deferred.py.                     *)
(***************************************************************************)
EXTENDS Deferred, Json

CONSTANTS MaxOps, Part, NParts, Rich, AllForms

VARIABLES tree, prog, pc, stack, hist
vars == <<tree, prog, pc, stack, hist>>

BOps == IF Rich THEN {"sub", "lshift", "lt", "eq", "and"} ELSE {"sub", "lt"}
UOps == {"neg"}
Naries == IF AllForms
          THEN {[fn |-> "chooses", form |-> "list"], [fn |-> "chooses", form |-> "dict"], [fn |-> "chooses", form |-> "pos"],
                [fn |-> "chooses", form |-> "kw"], [fn |-> "if_true_then_else", form |-> "pos"], [fn |-> "if_true_then_else", form |-> "list"]}
          ELSE {[fn |-> "chooses", form |-> "list"]}

AllTrees == UNION {{t \in TreesN(k, BOps, UOps, Naries) : WellFormed(t)} : k \in 1..MaxOps}
TSeq == SetToSeq(AllTrees)

Init == LET ts == TSeq IN
        \E i \in {j \in 1..Len(ts) : j % NParts = Part} :
            /\ tree = ts[i]
            /\ prog = Compile(Build(ts[i]))
            /\ pc = 1 /\ stack = <<>> /\ hist = <<>>
Next == /\ pc <= Len(prog)
        /\ stack' = ApplyInstr(stack, prog[pc])
        /\ hist' = Append(hist, ApplyInstr(stack, prog[pc]))
        /\ pc' = pc + 1
        /\ UNCHANGED <<tree, prog>>
Spec == Init /\ [][Next]_vars

Done == pc = Len(prog) + 1
\* never pops an empty stack; exactly one value is left
Inv_C09_Depth == /\ (pc <= Len(prog) => ~Underflow(stack, prog[pc]))
                 /\ (Done => Len(stack) = 1)
\* the result is the meaning of the same Python expression
Inv_C09_Result == Done => Canon(stack[1]) = Canon(TermOf(tree))

Emit == Done => PrintT(<<"EMIT", ToJson([tree |-> tree, prog |-> prog, result |-> stack[1], hist |-> hist])>>)
=============================================================================
