SPECIFICATION Spec
INVARIANT Inv_C07_Reject
INVARIANT Emit
