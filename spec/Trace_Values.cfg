SPECIFICATION Spec
INVARIANT Report
