----------------------------- MODULE GenPacket -----------------------------
(***************************************************************************)
(* The BLOCK-STEP machines: what the code that bisturi/codegen.py generates *)
(* does, as small-step operators on the same machine records as Packet.tla. *)
(*                                                                          *)
(* A code-generation setting is  g = [u, p, vec]  (generate_for_unpack,     *)
(* generate_for_pack, vectorize; `annotate` only adds comments).  Under     *)
(* generated code the described field list is cut into blocks               *)
(* (Codegen!BlockStart / BlockEnd):                                         *)
(*   - a struct block (adjacent fixed-size fields with a struct code and    *)
(*     one byte order; singletons without `vectorize`) is ONE slice of the  *)
(*     summed size + ONE StructUnpack that assigns every member, resp. ONE  *)
(*     StructPack of every member + ONE append.  The field objects are not  *)
(*     consulted (no field event), a short slice or one bad member fails    *)
(*     the whole block, whose entry is named after the block and carries    *)
(*     the position at which the BLOCK begins;                              *)
(*   - every other field is run through the field list exactly as the       *)
(*     generic loop does it (StepU / StepP).                                *)
(* StepUG / StepPG are those machines.  MC_Gen checks that they refine the  *)
(* generic machines (C03 on the model): same outcome, values, end offset,   *)
(* output bytes, and an error stack that is the generic one mapped through  *)
(* Codegen!GenErr / GenErrP - which is thereby checked against an           *)
(* operational definition instead of being taken on faith.                  *)
(***************************************************************************)
EXTENDS PacketProps

GenOff == [u |-> FALSE, p |-> FALSE, vec |-> FALSE]

AtStructU(dp, m, g) ==
    /\ g.u /\ m.stack # <<>> /\ Top(m.stack).kind = "pkt"
    /\ Top(m.stack).idx <= Len(dp[Top(m.stack).cls].fields)
    /\ StructF(CurFieldOf(dp, Top(m.stack)))

\* decode the members a..b of a block from one chunk of exactly the summed size
RECURSIVE BlockVals(_, _, _, _, _, _)
BlockVals(fs, opts, chunk, a, b, vals) ==
    IF a > b THEN vals
    ELSE LET f == fs[a]
             n == FSize(f)
             piece == SubSeq(chunk, 1, n)
             v == IF f.k = "Int" THEN IntV(Decode(piece, f.signed, IsBig(f, opts))) ELSE BytesV(piece)
         IN BlockVals(fs, opts, SubSeq(chunk, n + 1, Len(chunk)), a + 1, b, SetVal(vals, f.name, v))

BlockStepU(dp, raw, m, g) ==
    LET fr == Top(m.stack)
        fs == dp[fr.cls].fields
        opts == dp[fr.cls].opts
        a == fr.idx
        b == BlockEnd(fs, opts, a, g.vec)
        total == SizeSum(fs, a, b)
        chunk == PySlice(raw, m.cur, m.cur + total)
        rd == Rd(raw, m.cur, m.cur + total)
    IN IF Len(chunk) # total THEN FailU(WithReads(m, <<rd>>))       \* struct.error: the whole block fails
       ELSE LET fr2 == [fr EXCEPT !.vals = BlockVals(fs, opts, chunk, a, b, @), !.idx = b + 1, !.fstart = m.cur + total]
            IN [WithReads(m, <<rd>>) EXCEPT !.cur = m.cur + total, !.stack = SetTop(@, fr2)]

UnwindUG(dp, m, g) ==
    IF AtStructU(dp, m, g)
    THEN LET fr == Top(m.stack)
             fs == dp[fr.cls].fields
             b == BlockEnd(fs, dp[fr.cls].opts, fr.idx, g.vec)
         IN [m EXCEPT !.stack = Pop(m.stack),
                      !.err = Append(@, [off |-> fr.fstart, name |-> BlockName(fs, fr.idx, b), cls |-> fr.cls]),
                      !.st = IF Len(m.stack) = 1 THEN "fail" ELSE "unwind"]
    ELSE UnwindU(dp, m)

StepUG(dp, raw, m, g) ==
    IF ~g.u THEN StepU(dp, raw, m)
    ELSE IF m.st = "unwind" THEN UnwindUG(dp, m, g)
    ELSE IF AtStructU(dp, m, g) THEN BlockStepU(dp, raw, m, g)
    ELSE StepU(dp, raw, m)

\* ------------------------------------------------------------------ pack
AtStructP(dp, p, g) ==
    /\ g.p /\ p.stack # <<>> /\ Top(p.stack).kind = "pkt"
    /\ Top(p.stack).idx <= Len(dp[Top(p.stack).cls].fields)
    /\ StructF(CurFieldOf(dp, Top(p.stack)))

\* struct's 's' code pads a short byte string with NULs and cuts a long one (values that are not of the declared
\* type: outside C03's quantifier, modelled as the code behaves)
PadTrunc(s, n) == [i \in 1..n |-> IF i <= Len(s) THEN s[i] ELSE 0]

\* [ok, s]: the bytes of members a..b, or not ok if some member has no value / a value struct refuses
RECURSIVE BlockBytes(_, _, _, _, _)
BlockBytes(fs, opts, vals, a, b) ==
    IF a > b THEN [ok |-> TRUE, s |-> <<>>]
    ELSE LET f == fs[a]
             has == HasVal(vals, f.name)
             v == IF has THEN Lookup(vals, f.name) ELSE NoneV
             one == IF ~has THEN [ok |-> FALSE, s |-> <<>>]
                    ELSE IF f.k = "Int"
                         THEN IF v.t = "int" /\ Representable(v.i, f.n, f.signed)
                              THEN [ok |-> TRUE, s |-> Encode(v.i, f.n, IsBig(f, opts))] ELSE [ok |-> FALSE, s |-> <<>>]
                         ELSE IF v.t = "bytes" THEN [ok |-> TRUE, s |-> PadTrunc(v.b, f.size.v)] ELSE [ok |-> FALSE, s |-> <<>>]
             rest == BlockBytes(fs, opts, vals, a + 1, b)
         IN [ok |-> one.ok /\ rest.ok, s |-> one.s \o rest.s]

BlockStepP(dp, p, g) ==
    LET fr == Top(p.stack)
        fs == dp[fr.cls].fields
        opts == dp[fr.cls].opts
        a == fr.idx
        b == BlockEnd(fs, opts, a, g.vec)
        bb == BlockBytes(fs, opts, fr.vals, a, b)
    IN IF ~bb.ok THEN FailP(p)
       ELSE LET r == PAppend(p, bb.s) IN
            IF r.ok THEN [r.p EXCEPT !.stack = SetTop(@, [fr EXCEPT !.idx = b + 1])] ELSE FailP(r.p)

UnwindPG(dp, p, g) ==
    IF AtStructP(dp, p, g) /\ ~(p.hookname # "" /\ Len(p.err) = 0)
    THEN LET fr == Top(p.stack)
             fs == dp[fr.cls].fields
             b == BlockEnd(fs, dp[fr.cls].opts, fr.idx, g.vec)
         IN [p EXCEPT !.stack = Pop(p.stack),
                      !.err = Append(@, [off |-> p.frag.cur, name |-> BlockName(fs, fr.idx, b), cls |-> fr.cls]),
                      !.st = IF Len(p.stack) = 1 THEN "fail" ELSE "unwind"]
    ELSE UnwindP(dp, p)

StepPG(dp, p, g) ==
    IF ~g.p THEN StepP(dp, p)
    ELSE IF p.st = "unwind" THEN UnwindPG(dp, p, g)
    ELSE IF p.st = "run" /\ AtStructP(dp, p, g) THEN BlockStepP(dp, p, g)
    ELSE StepP(dp, p)

\* ------------------------------------------------ run to completion (bounded by fuel: the machines terminate)
RECURSIVE RunUG(_, _, _, _, _)
RunUG(dp, raw, m, g, fuel) == IF ~RunningU(m) \/ fuel = 0 THEN m ELSE RunUG(dp, raw, StepUG(dp, raw, m, g), g, fuel - 1)
RECURSIVE RunPG(_, _, _, _)
RunPG(dp, p, g, fuel) == IF ~RunningP(p) \/ fuel = 0 THEN p ELSE RunPG(dp, StepPG(dp, p, g), g, fuel - 1)

\* ------------------------------------------------ the refinement relation (C03 stated on two machines)
\* every Data(const) value that the pack machine meets has the declared length (values of the declared types)
RECURSIVE WellSizedV(_, _)
WellSizedV(dp, v) ==
    CASE v.t = "pkt" ->
            v.cls \in DOMAIN dp /\
            \A i \in 1..Len(dp[v.cls].fields) :
                LET f == dp[v.cls].fields[i] IN
                (f.k # "Move" /\ HasVal(v.vals, f.name)) =>
                    LET x == Lookup(v.vals, f.name) IN
                    /\ (f.k = "Data" /\ f.size.m = "const" /\ x.t = "bytes") => Len(x.b) = f.size.v
                    /\ WellSizedV(dp, x)
      [] v.t = "list" -> \A j \in 1..Len(v.l) : WellSizedV(dp, v.l[j])
      [] OTHER -> TRUE

C03_RefineU(dp, mu, mg, g) ==
    /\ mg.st = mu.st
    /\ mu.st = "done" => (mg.result = mu.result /\ mg.cur = mu.cur
                          /\ Consumed(UObsOf(mg)) = Consumed(UObsOf(mu)))      \* the same bytes decoded, whatever the slicing
    /\ mu.st = "fail" => mg.err = (IF g.u THEN GenErr(dp, mu.err, g.vec, mu.hookname # "") ELSE mu.err)
C03_RefineP(dp, pu, pg, g) ==
    /\ pg.st = pu.st
    /\ pu.st = "done" => pg.out = pu.out
    /\ pu.st = "fail" => pg.err = (IF g.p THEN GenErrP(dp, pu.err, g.vec, pu.hookname # "") ELSE pu.err)
=============================================================================
