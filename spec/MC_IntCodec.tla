---------------------------- MODULE MC_IntCodec ----------------------------
(***************************************************************************)
(* One state per (configuration, byte pattern): the codec laws are checked  *)
(* by TLC on the digit-sequence codec itself and every case is exported     *)
(* for execution on the real Int field (decode the pattern; encode the      *)
(* decoded value back; encode the neighbours of the range boundaries).      *)
(*  - widths 1 and 2: ALL byte patterns, both signs, big and little         *)
(*  - widths 3,4,5,8,9,16: every placement of the lane alphabet             *)
(*    {00,01,7f,80,fe,ff} in up to 3 non-fill lanes, fill in {00,ff}        *)
(*  - the five endianness spellings x the class default on a boundary set   *)
(***************************************************************************)
EXTENDS IntCodec, Json

CONSTANTS Part, NParts, Mode      \* Mode "full12" | "lanes" | "spellings"

VARIABLES cfg, bs
vars == <<cfg, bs>>

Lane == {0, 1, 127, 128, 254, 255}
Fill == {0, 255}
Widths == {3, 4, 5, 8, 9, 16}

\* all n-byte strings with at most 3 positions differing from a fill byte
LaneStrings(n) ==
    UNION {{[i \in 1..n |-> IF i \in P THEN a[i] ELSE f] : a \in [P -> Lane]} :
              f \in Fill, P \in {Q \in SUBSET (1..n) : Cardinality(Q) <= 3 /\ Cardinality(Q) >= 1 /\
                                                      (n <= 5 \/ Q \subseteq {1, 2, n - 1, n})}} 

Cfg(n, sg, e, c) == [n |-> n, signed |-> sg, endian |-> e, cls |-> c]
Spellings == {"default", "big", "little", "network", "local"}
ClsOpts == {"none", "big", "little"}
Boundary(n) == {[i \in 1..n |-> 0], [i \in 1..n |-> 255], <<127>> \o [i \in 1..(n - 1) |-> 255], <<128>> \o [i \in 1..(n - 1) |-> 0],
                <<1>> \o [i \in 1..(n - 1) |-> 2], [i \in 1..n |-> i]}

Init ==
    CASE Mode = "full12" ->
            /\ cfg \in {Cfg(n, sg, e, "none") : n \in {1, 2}, sg \in BOOLEAN, e \in {"big", "little"}}
            /\ bs \in [1..cfg.n -> 0..255]
            /\ bs[1] % NParts = Part
      [] Mode = "lanes" ->
            /\ cfg \in {Cfg(n, sg, e, "none") : n \in Widths, sg \in BOOLEAN, e \in {"big", "little"}}
            /\ bs \in LaneStrings(cfg.n)
            /\ Part = 0
      [] OTHER ->
            /\ cfg \in {Cfg(n, sg, e, c) : n \in {1, 2, 3, 4, 8, 9}, sg \in BOOLEAN, e \in Spellings, c \in ClsOpts}
            /\ bs \in Boundary(cfg.n)
            /\ Part = 0
Next == UNCHANGED vars
Spec == Init /\ [][Next]_vars

Big == EffBig(cfg.endian, cfg.cls)
V == Decode(bs, cfg.signed, Big)

\* encode after decode is the identity on all n-byte strings
Inv_C05_DecEnc == LET e == Encode(V, cfg.n, cfg.signed, Big) IN e.ok /\ e.bs = bs
\* what is decoded is representable; its neighbours outside the range are not
Inv_C05_Range == Representable(V, cfg.n, cfg.signed)
Inv_C05_OutOfRange ==
    /\ ~Representable(Val(FALSE, Inc(<<0>> \o (IF cfg.signed THEN MaxS(cfg.n) ELSE MaxU(cfg.n)))), cfg.n, cfg.signed)
    /\ ~Representable(Val(TRUE, IF cfg.signed THEN Inc(<<0>> \o Half(cfg.n)) ELSE <<1>>), cfg.n, cfg.signed)
\* little endian is the reversed big endian; network is big
Inv_C05_Endian == /\ Decode(bs, cfg.signed, FALSE) = Decode(Reverse(bs), cfg.signed, TRUE)
                  /\ EffBig("network", "little") /\ EffBig("big", "little") /\ ~EffBig("little", "big")
                  /\ EffBig("default", "none") /\ ~EffBig("default", "little")
\* the unsigned value of a pattern and the signed one differ by exactly 2^(8n) when the top bit is set
Inv_C05_Sign == LET u == Decode(bs, FALSE, Big) s == Decode(bs, TRUE, Big) d == ToBig(bs, Big) IN
                IF d[1] < 128 THEN u = s ELSE (s.neg /\ PadTo(s.mag, cfg.n) = TwosNeg(PadTo(u.mag, cfg.n)))

Emit == PrintT(<<"EMIT", ToJson([cfg |-> cfg, bs |-> bs, big |-> Big, v |-> V,
                                 over |-> Val(FALSE, Inc(<<0>> \o (IF cfg.signed THEN MaxS(cfg.n) ELSE MaxU(cfg.n)))),
                                 under |-> Val(TRUE, IF cfg.signed THEN Inc(<<0>> \o Half(cfg.n)) ELSE <<1>>)])>>)
=============================================================================
