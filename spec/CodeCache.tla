----------------------------- MODULE CodeCache -----------------------------
(***************************************************************************)
(* The on-disk generated-code cache (bisturi/codegen.py, generate_code):    *)
(* processes x file system x crashes.                                       *)
(*                                                                          *)
(* Abstract file content = [owner, shape]                                   *)
(*   owner  the declaration whose code the bytes were generated from        *)
(*   shape  "complete" | "empty" | "nocookie" (importable prefix without    *)
(*          the cookie) | "cookie_nofn" (importable, cookie present,        *)
(*          functions missing/incomplete) | "broken" (cut inside a          *)
(*          statement, or bytes of two writers mixed: not importable)       *)
(* stamp = [size, sec]: what the bytecode cache validates (source size and  *)
(* mtime second).  Declarations with the same SizeOf generate source of the *)
(* same length.                                                             *)
(*                                                                          *)
(* Repaired = TRUE is the protocol of the fixed tree: any load failure is   *)
(* tolerated; the module is written to a private temporary file with the    *)
(* cookie LAST and published with os.replace; after the reload the module   *)
(* is verified again and, if it is not ours, the code is executed from      *)
(* memory.  Repaired = FALSE is the pinned protocol (only ImportError       *)
(* tolerated, in-place truncate-and-write with the cookie second, reload    *)
(* without re-check), kept to show that the checker sees the difference.    *)
(***************************************************************************)
EXTENDS Integers, Sequences, FiniteSets, TLC

CONSTANTS Procs, Decls, SizeOf, Repaired, BytecodeOn, MaxCrashes, MaxSec, InitFiles, Sequential, Order

VARIABLES file, pyc, clock, proc, crashes
vars == <<file, pyc, clock, proc, crashes>>

Absent == [exists |-> FALSE, owner |-> "none", shape |-> "none", stamp |-> [size |-> 0, sec |-> 0], writer |-> "none"]
Shapes == {"complete", "empty", "nocookie", "cookie_nofn", "broken"}
File(o, sh, sec) == [exists |-> TRUE, owner |-> o, shape |-> sh,
                     stamp |-> [size |-> IF sh = "complete" THEN SizeOf[o] ELSE 100 + SizeOf[o], sec |-> sec], writer |-> "none"]
NoPyc == [exists |-> FALSE, owner |-> "none", shape |-> "none", stamp |-> [size |-> 0, sec |-> 0]]
NoMod == [owner |-> "none", shape |-> "none"]

P0(d) == [pc |-> "exists", decl |-> d, mod |-> NoMod, inst |-> "none", outcome |-> "none", tmp |-> "none", opened |-> FALSE]

\* every initial cache content: absent, complete for any declaration, any torn prefix class of any
\* declaration; bytecode absent, valid, or stale-but-stamp-equal (same size class, same second)
InitFileSet == {Absent} \cup {File(o, sh, 0) : o \in Decls, sh \in InitFiles}
InitPycSet(f) == {NoPyc} \cup (IF BytecodeOn
                               THEN {[exists |-> TRUE, owner |-> o, shape |-> "complete", stamp |-> [size |-> SizeOf[o], sec |-> 0]] : o \in Decls}
                               ELSE {})

Init == /\ file \in InitFileSet
        /\ pyc \in InitPycSet(file)
        /\ clock = 0
        /\ proc \in [Procs -> {P0(d) : d \in Decls}]
        /\ crashes = 0

Usable(m, d) == m.owner = d /\ m.shape = "complete"
\* what the pinned code checks: only the cookie
CookieMatches(m, d) == m.owner = d /\ m.shape \in {"complete", "cookie_nofn"}

\* result of SourceFileLoader.load_module on the public file: [raises, mod, pyc']
LoadResult ==
    IF pyc.exists /\ file.exists /\ pyc.stamp = file.stamp
    THEN [raises |-> FALSE, mod |-> [owner |-> pyc.owner, shape |-> pyc.shape], pyc |-> pyc]      \* bytecode wins
    ELSE IF ~file.exists THEN [raises |-> TRUE, mod |-> NoMod, pyc |-> pyc]
    ELSE IF file.shape = "broken" THEN [raises |-> TRUE, mod |-> NoMod, pyc |-> pyc]
    ELSE [raises |-> FALSE, mod |-> [owner |-> file.owner, shape |-> file.shape],
          pyc |-> IF BytecodeOn THEN [exists |-> TRUE, owner |-> file.owner, shape |-> file.shape, stamp |-> file.stamp] ELSE pyc]

Set(p, r) == proc' = [proc EXCEPT ![p] = r]
Goto(p, pc) == Set(p, [proc[p] EXCEPT !.pc = pc])

Tick == clock < MaxSec /\ clock' = clock + 1 /\ UNCHANGED <<file, pyc, proc, crashes>>

Exists(p) == /\ proc[p].pc = "exists"
             /\ Goto(p, IF file.exists THEN "load1" ELSE "rmpyc")
             /\ UNCHANGED <<file, pyc, clock, crashes>>

Load1(p) == /\ proc[p].pc = "load1"
            /\ LET r == LoadResult IN
               IF r.raises
               THEN IF Repaired THEN Set(p, [proc[p] EXCEPT !.pc = "rmpyc", !.mod = NoMod]) /\ pyc' = pyc
                    ELSE \* SyntaxError / EOFError is not an ImportError: the class definition dies
                         Set(p, [proc[p] EXCEPT !.pc = "done", !.outcome = "failed"]) /\ pyc' = pyc
               ELSE /\ pyc' = r.pyc
                    /\ LET ok == IF Repaired THEN Usable(r.mod, proc[p].decl) ELSE CookieMatches(r.mod, proc[p].decl) IN
                       Set(p, [proc[p] EXCEPT !.mod = r.mod, !.pc = IF ok THEN "install" ELSE "rmpyc"])
            /\ UNCHANGED <<file, clock, crashes>>

\* the bytecode file of the module just loaded is removed (its path is only known after a successful load)
RmPyc(p) == /\ proc[p].pc = "rmpyc"
            /\ pyc' = IF proc[p].mod # NoMod THEN NoPyc ELSE pyc
            /\ Goto(p, "mkdirs")
            /\ UNCHANGED <<file, clock, crashes>>

Mkdirs(p) == /\ proc[p].pc = "mkdirs" /\ Goto(p, "open") /\ UNCHANGED <<file, pyc, clock, crashes>>

\* ---- writing.  Pinned: open(path, 'w') truncates the PUBLIC file, chunks: imports, cookie, pack, unpack.
\*      Repaired: a private temporary file, chunks: imports, pack, unpack, cookie; then os.replace.
Chunks == IF Repaired THEN <<"nocookie", "nocookie", "nocookie", "complete">>       \* shape after chunk k
          ELSE <<"nocookie", "cookie_nofn", "cookie_nofn", "complete">>

Open(p) == /\ proc[p].pc = "open"
           /\ IF Repaired THEN Set(p, [proc[p] EXCEPT !.pc = "w1", !.tmp = "empty"]) /\ file' = file
              ELSE /\ file' = [File(proc[p].decl, "empty", clock) EXCEPT !.writer = p]
                   /\ Goto(p, "w1")
           /\ UNCHANGED <<pyc, clock, crashes>>

PcW(k) == CASE k = 1 -> "w1" [] k = 2 -> "w2" [] k = 3 -> "w3" [] OTHER -> "w4"
Write(p, k) ==
    /\ proc[p].pc = PcW(k)
    /\ IF Repaired THEN Set(p, [proc[p] EXCEPT !.pc = IF k = 4 THEN "close" ELSE PcW(k + 1), !.tmp = Chunks[k]]) /\ file' = file
       ELSE /\ file' = IF file.writer = p THEN [File(proc[p].decl, Chunks[k], clock) EXCEPT !.writer = p]
                       ELSE [File(proc[p].decl, "broken", clock) EXCEPT !.writer = p]     \* two writers: mixed bytes
            /\ Goto(p, IF k = 4 THEN "close" ELSE PcW(k + 1))
    /\ UNCHANGED <<pyc, clock, crashes>>

Close(p) == /\ proc[p].pc = "close"
            /\ Goto(p, IF Repaired THEN "replace" ELSE "load2")
            /\ UNCHANGED <<file, pyc, clock, crashes>>

Replace(p) == /\ proc[p].pc = "replace"
              /\ file' = File(proc[p].decl, proc[p].tmp, clock)
              /\ Set(p, [proc[p] EXCEPT !.pc = "load2", !.tmp = "none"])
              /\ UNCHANGED <<pyc, clock, crashes>>

Load2(p) == /\ proc[p].pc = "load2"
            /\ LET r == LoadResult IN
               IF r.raises
               THEN /\ pyc' = pyc
                    /\ IF Repaired THEN Set(p, [proc[p] EXCEPT !.pc = "fallback", !.mod = NoMod])
                       ELSE Set(p, [proc[p] EXCEPT !.pc = "done", !.outcome = "failed"])
               ELSE /\ pyc' = r.pyc
                    /\ Set(p, [proc[p] EXCEPT !.mod = r.mod,
                                              !.pc = IF Repaired /\ ~Usable(r.mod, proc[p].decl) THEN "fallback" ELSE "install"])
            /\ UNCHANGED <<file, clock, crashes>>

\* the module is not ours (another definition replaced the file meanwhile): execute our own source from memory
Fallback(p) == /\ proc[p].pc = "fallback"
               /\ Set(p, [proc[p] EXCEPT !.pc = "install", !.mod = [owner |-> proc[p].decl, shape |-> "complete"]])
               /\ UNCHANGED <<file, pyc, clock, crashes>>

Install(p) == /\ proc[p].pc = "install"
              /\ LET m == proc[p].mod IN
                 Set(p, [proc[p] EXCEPT !.pc = "done", !.inst = m.owner,
                                        !.outcome = IF m.shape # "complete" THEN "failed"       \* AttributeError: no pack_impl
                                                    ELSE IF m.owner = proc[p].decl THEN "own" ELSE "foreign"])
              /\ UNCHANGED <<file, pyc, clock, crashes>>

\* a process dies at any point; inside a chunk written to the PUBLIC file it leaves a cut statement
Crash(p) == /\ proc[p].pc \notin {"done", "crashed"} /\ crashes < MaxCrashes
            /\ crashes' = crashes + 1
            /\ Set(p, [proc[p] EXCEPT !.pc = "crashed"])
            /\ file' = IF ~Repaired /\ proc[p].pc \in {"w1", "w2", "w3", "w4"} /\ file.writer = p
                       THEN [File(proc[p].decl, "broken", clock) EXCEPT !.writer = "none"]
                       ELSE file
            /\ UNCHANGED <<pyc, clock>>

Step(p) == Exists(p) \/ Load1(p) \/ RmPyc(p) \/ Mkdirs(p) \/ Open(p) \/ (\E k \in 1..4 : Write(p, k)) \/ Close(p)
           \/ Replace(p) \/ Load2(p) \/ Fallback(p) \/ Install(p)

\* Sequential: successive definitions, one at a time, in the order given by Order (C15);
\* otherwise any interleaving (C16)
MayRun(p) == ~Sequential \/ \A q \in Procs : Order[q] < Order[p] => proc[q].pc \in {"done", "crashed"}

Next == Tick \/ \E p \in Procs : MayRun(p) /\ (Step(p) \/ Crash(p))
Spec == Init /\ [][Next]_vars

\* ---------------------------------------------------------------- properties
\* every definition that is not killed ends running its own code: never a failed import, never a
\* truncated module, never code generated for another declaration
Inv_C16_Safe == \A p \in Procs : proc[p].pc = "done" => proc[p].outcome = "own"
\* a module that is accepted as matching carries exactly our code
Inv_C15_Reuse == \A p \in Procs : proc[p].pc = "install" => (Repaired => Usable(proc[p].mod, proc[p].decl))
\* the published file is never a torn file written by the repaired protocol
Inv_Publish == Repaired => (file.exists /\ file.shape # "complete" => file.stamp.sec = 0 /\ file.writer = "none")
=============================================================================
