--------------------------- MODULE Trace_Deferred ---------------------------
(***************************************************************************)
(* code -> spec for C09: for a syntax tree, the program the REAL            *)
(* compile_expr produced (instruction arities and names) and, for every     *)
(* instruction the REAL exec_compiled_expr executed, the operands it was    *)
(* applied to and its result (as terms).  TLC checks that the program is    *)
(* Compile(Build(tree)) and that the run is a run of the stack machine      *)
(* ending in the meaning of the tree.                                       *)
(* record: [tree, prog, steps : seq of [args, result]]                      *)
(***************************************************************************)
EXTENDS Deferred, Json, IOUtils

Traces == JsonDeserialize(IOEnv.TRACE_FILE)
VARIABLES tid, pc, stack, bad
vars == <<tid, pc, stack, bad>>
TR == Traces[tid]
Prog == Compile(Build(TR.tree))

Init == tid \in 1..Len(Traces) /\ pc = 1 /\ stack = <<>> /\ bad = {}
Step == /\ pc <= Len(Prog) /\ pc <= Len(TR.steps)
        /\ LET ins == Prog[pc] IN
           IF Underflow(stack, ins) THEN /\ bad' = bad \cup {"C09_Underflow"} /\ pc' = Len(Prog) + 1 /\ UNCHANGED stack
           ELSE /\ stack' = ApplyInstr(stack, ins)
                /\ bad' = bad
                     \cup (IF ins.n > 0 /\ TR.steps[pc].args # Reverse(SubSeq(stack, 1, ins.n)) THEN {"C09_Operands"} ELSE {})
                     \cup (IF TR.steps[pc].result # ApplyInstr(stack, ins)[1] THEN {"C09_StepResult"} ELSE {})
                /\ pc' = pc + 1
        /\ UNCHANGED tid
Next == Step
Spec == Init /\ [][Next]_vars

Done == pc > Len(Prog) \/ pc > Len(TR.steps)
F(name, ok) == IF ok THEN {} ELSE {name}
Failed == bad
          \cup F("C09_Program", TR.prog = Prog)
          \cup F("C09_Length", Len(TR.steps) = Len(Prog))
          \cup F("C09_Result", (Len(TR.steps) = Len(Prog) /\ Len(stack) >= 1) => Canon(stack[1]) = Canon(TermOf(TR.tree)))
          \* what the public entry point returned for this tree (the property itself, on the recording)
          \cup F("C09_RecordedResult", Canon(TR.result) = Canon(TermOf(TR.tree)))
          \cup F("C09_OneLeft", Len(TR.steps) = Len(Prog) => Len(stack) = 1)
Report == Done => PrintT(<<"RES", tid, SetToSeq(Failed)>>)
=============================================================================
