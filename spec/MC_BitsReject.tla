--------------------------- MODULE MC_BitsReject ---------------------------
(***************************************************************************)
(* C07, class-definition half: a run of consecutive bit fields whose total  *)
(* width is not a multiple of 8 is rejected when the class is defined.      *)
(* Run detection is on the DESCRIBED list (Bits._compile looks at its       *)
(* neighbours there), so a positioned bit field or a class-wide align       *)
(* option splits runs (modelled, see Decl!Described).                       *)
(***************************************************************************)
EXTENDS Universes, Json

VARIABLES ws, ctx, done
vars == <<ws, ctx, done>>

Widths == UNION {{c \in Compositions(k) : Len(c) <= 4} : k \in 1..12} \cup {<<9, 7>>, <<5, 6, 5>>, <<13, 3, 8>>, <<17>>, <<20, 4>>}
Ctxs == {"alone", "between", "two_runs", "aligned_second"}

Fields(w, c) ==
    CASE c = "alone" -> BitFields(w)
      [] c = "between" -> <<U1("pre")>> \o BitFields(w) \o <<U1("post")>>
      [] c = "two_runs" -> BitFields(w) \o <<U1("mid"), BitsF("x1", 3), BitsF("x2", 5)>>
      [] OTHER -> \* the second member carries its own alignment: it starts a new run
            IF Len(w) >= 2 THEN <<BitFields(w)[1], WithMv(BitFields(w)[2], "aligned", SzConst(1), "begins")>> \o SubSeq(BitFields(w), 3, Len(w))
            ELSE BitFields(w)

Init == ws \in Widths /\ ctx \in Ctxs /\ done = FALSE
Next == ~done /\ done' = TRUE /\ UNCHANGED <<ws, ctx>>
Spec == Init /\ [][Next]_vars

Prog == [C0 |-> Class(DefaultOpts, Fields(ws, ctx))]
Definable == ClassDefinable(Prog, "C0")

RECURSIVE SumSeq(_)
SumSeq(s) == IF s = <<>> THEN 0 ELSE Head(s) + SumSeq(Tail(s))

\* the property, independent of the run-detection operators: in the contexts that keep the run whole,
\* the class is definable iff the widths sum to a multiple of 8
Inv_C07_Reject == (done /\ ctx \in {"alone", "between", "two_runs"}) => (Definable <=> SumSeq(ws) % 8 = 0)

Emit == done => PrintT(<<"EMIT", ToJson([prog |-> Prog, definable |-> Definable, ws |-> ws, ctx |-> ctx])>>)
=============================================================================
