-------------------------- MODULE RegexpUniverses --------------------------
(***************************************************************************)
(* Flat declarations over Int, Bits and Data (every sizing mode; regex      *)
(* delimiters only when kept in the value, as C18 says) with alphabets that *)
(* contain regex metacharacters.                                            *)
(***************************************************************************)
EXTENDS Expr

Strings(alpha, maxlen) == UNION {[1..k -> alpha] : k \in 0..maxlen}
RDecl(fields, alpha, maxlen) == [prog |-> [C0 |-> Class(DefaultOpts, fields)], root |-> "C0", alpha |-> alpha, maxlen |-> maxlen]
U1(f) == IntF(f, 1, FALSE, "default")
Defer(e) == SzExpr(e, "deferred")
Lam(e) == SzExpr(e, "lambda")

\* 46 '.', 42 '*', 91 '[', 92 '\', 36 '$', 124 '|', 40 '(', 10 newline, 94 '^'
U_C18 == {
    RDecl(<<U1("a"), IntF("b", 2, FALSE, "little")>>, {46, 42, 10}, 3),
    \* signed integers fixed to negative values (bytes >= 128), either byte order
    RDecl(<<IntF("a", 1, TRUE, "default"), IntF("b", 2, TRUE, "little"), U1("z")>>, {0, 128, 255, 254, 46}, 4),     \* (-1 and -2: equal hashes)
    RDecl(<<IntF("a", 2, TRUE, "big"), IntF("b", 3, TRUE, "default")>>, {1, 255}, 5),
    RDecl(<<U1("a"), DataF("d", SzConst(2)), U1("z")>>, {91, 92, 1}, 4),
    RDecl(<<U1("a"), DataF("d", SzField("a")), U1("z")>>, {0, 1, 2, 36}, 4),
    RDecl(<<U1("a"), DataF("d", Defer(EBin("mul", EF("a"), EC(2)))), U1("z")>>, {0, 1, 124}, 4),
    RDecl(<<U1("a"), DataF("d", Lam(EBin("add", EF("a"), EC(1)))), U1("z")>>, {0, 1, 40}, 4),
    RDecl(<<U1("a"), DataF("d", Defer(EChoose(EBin("eq", EF("a"), EC(1)), <<[k |-> 1, v |-> EC(1)], [k |-> 0, v |-> EC(2)]>>))), U1("z")>>, {0, 1, 46}, 4),
    RDecl(<<U1("a"), DataF("d", SzMarker(<<0>>, FALSE, TRUE)), U1("z")>>, {0, 46, 42}, 4),
    RDecl(<<DataF("d", SzMarker(<<46, 42>>, TRUE, TRUE)), U1("z")>>, {46, 42, 65}, 5),
    RDecl(<<DataF("d", SzMarker(<<124>>, FALSE, TRUE)), DataF("e", SzMarker(<<124>>, TRUE, TRUE))>>, {124, 65, 10}, 4),
    RDecl(<<U1("a"), DataF("d", SzRegex("XorY", TRUE, TRUE)), U1("z")>>, {88, 89, 1}, 4),
    RDecl(<<U1("a"), DataF("d", SzRegex("Xplus", TRUE, TRUE)), DataF("e", SzConst(1))>>, {88, 1, 46}, 4),
    RDecl(<<DataF("d", SzRegex("crlf", TRUE, TRUE)), U1("z")>>, {13, 10, 65}, 4),
    RDecl(<<DataF("d", SzRegex("Ystar", TRUE, TRUE)), U1("z")>>, {89, 1}, 4),
    RDecl(<<BitsF("h", 4), BitsF("l", 4), U1("z")>>, {0, 90, 165, 255, 91}, 2),
    RDecl(<<BitsF("p", 3), BitsF("q", 2), BitsF("r", 3)>>, {0, 37, 90, 165, 255, 92}, 1),
    RDecl(<<U1("a"), BitsF("h", 1), BitsF("m", 14), BitsF("l", 1)>>, {0, 1, 92, 255}, 3),
    RDecl(<<BitsF("h", 6), BitsF("l", 10), DataF("d", SzConst(1))>>, {0, 45, 93, 255}, 3),
    \* literal values that spell a repetition ({n}, {m,n}) and nothing else a regular expression gives a meaning to
    RDecl(<<U1("a"), DataF("d", SzConst(3)), U1("z")>>, {123, 50, 125}, 5),
    RDecl(<<IntF("a", 4, FALSE, "default"), U1("z")>>, {123, 51, 125}, 5),
    RDecl(<<DataF("d", SzMarker(<<0>>, FALSE, TRUE)), U1("z")>>, {0, 123, 44, 125}, 4),
    \* a size that depends on where the field begins, behind fields of other widths than one byte left as Any
    RDecl(<<IntF("a", 2, FALSE, "default"), DataF("d", Lam(EBin("mod", EUn("neg", EOff), EC(4)))), U1("z")>>, {0, 1, 46}, 5),
    RDecl(<<U1("n"), DataF("b", SzField("n")), DataF("d", Lam(EBin("mod", EUn("neg", EOff), EC(4)))), U1("z")>>, {0, 2, 3}, 5),
    \* a size expression that cannot be evaluated on the pattern for another reason than an Any operand (division by a field
    \* fixed to zero): the field's length is then simply not fixed by the pattern
    RDecl(<<U1("a"), U1("b"), DataF("d", Defer(EBin("floordiv", EF("a"), EF("b")))), U1("z")>>, {0, 1, 2}, 4),
    \* the last field is a byte string whose literal value may be empty
    RDecl(<<U1("a"), DataF("d", SzField("a"))>>, {0, 1, 36}, 3),
    RDecl(<<U1("a"), DataF("d", Defer(EBin("sub", EF("a"), EC(1))))>>, {1, 2, 46}, 3),
    \* a little-endian class: integers follow it, bit groups do not
    \* (the bit group first: the candidate with the first two bytes swapped is its byte-swapped image)
    [RDecl(<<BitsF("h", 4), BitsF("l", 12), IntF("a", 2, FALSE, "default"), U1("z")>>, {1, 165}, 5)
        EXCEPT !.prog = [C0 |-> Class([DefaultOpts EXCEPT !.endian = "little"], <<BitsF("h", 4), BitsF("l", 12), IntF("a", 2, FALSE, "default"), U1("z")>>)]]
}
=============================================================================
