----------------------------- MODULE MC_Session -----------------------------
(***************************************************************************)
(* C13 profile: up to MaxLive live packets of the classes of one program,   *)
(* histories of New / Unpack / SetAttr / Mutate / Pack up to MaxOps.        *)
(* After every operation the deep values and the pack() output of EVERY     *)
(* live packet are part of the observable state:                            *)
(*   Inv_C13_Bystander  an operation on p leaves every other packet's       *)
(*                      values and pack() output unchanged                  *)
(*   Inv_C13_PackPure   pack() leaves p's values unchanged and repeats      *)
(***************************************************************************)
EXTENDS Session, SessionUniverses, Json

CONSTANTS MaxOps, MaxLive, KeepHist, Prog

VARIABLES live, regs, last, n, hist
vars == <<live, regs, last, n, hist>>

P == IF Prog = "regex" THEN SessRegex ELSE IF Prog = "selector" THEN SessSelector ELSE IF Prog = "desc" THEN SessDesc ELSE SessPlain
DP == DescribeProg(P.prog)
Classes == P.classes
Raws(c) == P.raws[c]
Kws(c) == P.kws[c]
Sets(c) == P.sets[c]

\* a live packet: [cls, vals, exp]; exp = its described fields that were assigned explicitly
PackOf(x, rg) == DoPackE(DP, x.cls, x.vals, rg, x.exp)
Snap(lv, rg) == [i \in 1..Len(lv) |-> [cls |-> lv[i].cls, vals |-> VisibleOf(P.prog, lv[i].cls, lv[i].vals, lv[i].exp), pack |-> PackOf(lv[i], rg)]]
Names(K) == {K[j].n : j \in 1..Len(K)}

NoOp == [op |-> "init", pid |-> 0, cls |-> "", arg |-> <<>>, ok |-> TRUE, dev |-> FALSE]
Log(o, lv, rg) == hist' = IF KeepHist THEN Append(hist, [o |-> o, snap |-> Snap(lv, rg)]) ELSE hist

Init == live = <<>> /\ regs = <<>> /\ last = NoOp /\ n = 0 /\ hist = <<>>

Do(o, lv, rg) == /\ live' = lv /\ regs' = rg /\ last' = o /\ n' = n + 1 /\ Log(o, lv, rg)

New == /\ Len(live) < MaxLive
       /\ \E c \in Classes : \E K \in Kws(c) :
             Do([op |-> "new", pid |-> Len(live) + 1, cls |-> c, arg |-> K, ok |-> TRUE, dev |-> FALSE],
                Append(live, [cls |-> c, vals |-> Construct(P.prog, c, K), exp |-> Names(K) \cap DescNamesOf(P.prog, c)]), regs)
Unpack == /\ Len(live) < MaxLive
          /\ \E c \in Classes : \E raw \in Raws(c) :
                LET r == DoUnpack(DP, c, raw, regs) IN
                IF r.ok THEN Do([op |-> "unpack", pid |-> Len(live) + 1, cls |-> c, arg |-> raw, ok |-> TRUE,
                                 dev |-> RegsChanged(regs, r.regs)],
                                Append(live, [cls |-> c, vals |-> r.vals, exp |-> {}]), r.regs)
                ELSE Do([op |-> "unpack", pid |-> 0, cls |-> c, arg |-> raw, ok |-> FALSE, dev |-> RegsChanged(regs, r.regs)], live, r.regs)
SetAttr == \E i \in 1..Len(live) : \E s \in Sets(live[i].cls) :
              Do([op |-> "set", pid |-> i, cls |-> live[i].cls, arg |-> s, ok |-> TRUE, dev |-> FALSE],
                 [live EXCEPT ![i].vals = SetVal(@, s.n, s.v), ![i].exp = @ \cup ({s.n} \cap DescNamesOf(P.prog, live[i].cls))], regs)
\* mutate a nested object in place: append to a list value / assign a field of a nested packet
Mutate == \E i \in 1..Len(live) : \E j \in 1..Len(live[i].vals) :
             LET e == live[i].vals[j] IN
             \/ (e.v.t = "list" /\ Len(e.v.l) < 3 /\
                   Do([op |-> "append", pid |-> i, cls |-> live[i].cls, arg |-> [n |-> e.n, v |-> P.appendval], ok |-> TRUE, dev |-> FALSE],
                      [live EXCEPT ![i].vals = SetVal(@, e.n, ListV(Append(e.v.l, P.appendval)))], regs))
             \/ (e.v.t = "pkt" /\ Len(e.v.vals) >= 1 /\
                   Do([op |-> "setnested", pid |-> i, cls |-> live[i].cls, arg |-> [n |-> e.n, f |-> e.v.vals[1].n, v |-> IntV(9)], ok |-> TRUE, dev |-> FALSE],
                      [live EXCEPT ![i].vals = SetVal(@, e.n, PktV(e.v.cls, SetVal(e.v.vals, e.v.vals[1].n, IntV(9))))], regs))
Pack == \E i \in 1..Len(live) :
           Do([op |-> "pack", pid |-> i, cls |-> live[i].cls, arg |-> <<>>, ok |-> PackOf(live[i], regs).ok, dev |-> FALSE],
              live, regs)

\* the user mutates a prototype INSTANCE they handed to Ref(...) earlier: nothing that exists, and no packet constructed
\* later, may notice (the class took its own copy)
MutProto == \E x \in P.protos :
               Do([op |-> "mutproto", pid |-> 0, cls |-> x.cls, arg |-> x, ok |-> TRUE, dev |-> FALSE], live, regs)

Next == n < MaxOps /\ (New \/ Unpack \/ SetAttr \/ Mutate \/ Pack \/ MutProto)
Spec == Init /\ [][Next]_vars

\* ---- the property, as action properties over the observable snapshot
Touched(o) == o.pid
Prop_C13_Bystander ==
    [][\A i \in 1..Len(live) :
          (i # Touched(last') /\ ~last'.dev) =>
              (live'[i] = live[i] /\ PackOf(live[i], regs') = PackOf(live[i], regs))]_vars
Prop_C13_PackPure == [][last'.op = "pack" => (live' = live /\ regs' = regs)]_vars

Emit == (KeepHist /\ n = MaxOps) =>
    PrintT(<<"EMIT", ToJson([prog |-> Prog, decl |-> P.prog, local |-> P.local, selshare |-> SelectorSharesObject(P.prog), hist |-> hist])>>)
=============================================================================
