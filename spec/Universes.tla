----------------------------- MODULE Universes -----------------------------
(***************************************************************************)
(* Bounded universes of declarations ("for all packet declarations") and    *)
(* the inputs explored with each.  A universe is a set of records           *)
(*   [prog, root, alpha, maxlen, starts]                                    *)
(* alpha = byte alphabet for the exhaustive inputs of this declaration,     *)
(* maxlen = all strings over alpha up to this length (scaled by the         *)
(* constant LenBonus of the profile), starts = start offsets (the bytes     *)
(* before the start offset are 0xEE filler).                                *)
(***************************************************************************)
EXTENDS Expr

LenBonus == 0     \* overridden by thorough profiles (LenBonus <- LB1 ...)
LBm1 == 0 - 1
LB1 == 1
LB2 == 2
LB3 == 3

Strings(alpha, maxlen) == UNION {[1..k -> alpha] : k \in 0..maxlen}

\* a declaration may name its inputs explicitly (long ones: sizes and distances beyond what "all strings up to n" can reach)
InputsOf(d) == IF "inputs" \in DOMAIN d THEN d.inputs ELSE Strings(d.alpha, d.maxlen + LenBonus)
RepB(b, n) == [i \in 1..n |-> b]
WithInputs(d, ins) == [prog |-> d.prog, root |-> d.root, alpha |-> d.alpha, maxlen |-> d.maxlen, starts |-> d.starts, inputs |-> ins]
StartsOf(d) == d.starts
PrefixOf(d, s) == [i \in 1..s |-> 238]

DeclO(opts, fields, alpha, maxlen) ==
    [prog |-> [C0 |-> Class(opts, fields)], root |-> "C0", alpha |-> alpha, maxlen |-> maxlen, starts |-> {0}]
Decl1(fields, alpha, maxlen) == DeclO(DefaultOpts, fields, alpha, maxlen)
DeclP(prog, alpha, maxlen, starts) ==
    [prog |-> prog, root |-> "C0", alpha |-> alpha, maxlen |-> maxlen, starts |-> starts]

U1(f) == IntF(f, 1, FALSE, "default")
S1(f) == IntF(f, 1, TRUE, "default")
Sub1 == Class(DefaultOpts, <<U1("x"), U1("y")>>)
Defer(e) == SzExpr(e, "deferred")
Lam(e) == SzExpr(e, "lambda")

\* ------------------------------------------------------------------ smoke
U_Smoke(zz) == {
    Decl1(<<U1("a"), IntF("b", 2, TRUE, "little")>>, {0, 1, 255}, 4),
    Decl1(<<IntF("a", 3, TRUE, "default")>>, {0, 128, 255}, 4),
    Decl1(<<U1("n"), DataF("d", SzField("n")), U1("z")>>, {0, 1, 2, 65}, 4),
    Decl1(<<DataF("d", SzMarker(<<0>>, FALSE, TRUE)), U1("z")>>, {0, 65}, 4),
    Decl1(<<DataF("d", SzRegex("Xplus", TRUE, TRUE)), DataF("e", SzRegex("EOS", FALSE, TRUE))>>, {88, 65}, 4),
    Decl1(<<BitsF("h", 3), BitsF("l", 5), BitsF("p", 12), BitsF("q", 4)>>, {0, 165, 255}, 4),
    Decl1(<<U1("n"), RepCountF("r", U1("e"), SzField("n"), NoCond, 0), EmF("tail")>>, {0, 1, 2}, 4),
    Decl1(<<U1("t"), OptF("o", DataF("e", SzConst(2)), Defer(EBin("eq", EF("t"), EC(1))))>>, {0, 1, 65}, 4),
    DeclP([C0 |-> Class(DefaultOpts, <<U1("a"), RefF("s", "C1"),
                                       WithMv(U1("b"), "at", SzConst(4), "innermost-pkt")>>),
           C1 |-> Sub1], {0, 1, 65}, 5, {0, 1}),
    DeclP([C0 |-> Class(DefaultOpts, <<RepUntilF("r", RefF("e", "C1"),
                                          Lam(EBin("eq", EAttr(EIdx(EF("r"), EC(-1)), "y"), EC(0))), NoCond, 2)>>),
           C1 |-> Sub1], {0, 1}, 6, {0}),
    DeclP([C0 |-> Class(DefaultOpts, <<U1("t"),
                                       RefSelF("v", EF("t"), <<[key |-> 1, alt |-> IntF("", 2, FALSE, "default")],
                                                               [key |-> 2, alt |-> RefF("", "C1")]>>, "chooses", IntV(0))>>),
           C1 |-> Sub1], {0, 1, 2}, 4, {0})
}

\* -------------------------------------------------------------------- C06
\* [pre: Int(1), d: Data(mode), post: Int(1)] for every sizing mode, class search window
\* a size that depends on WHERE the field begins (padding up to a multiple of 4): lambda pkt, offset, **k: -offset % 4
PadLam == Lam(EBin("mod", EUn("neg", EOff), EC(4)))
SizedModes == {SzConst(0), SzConst(1), SzConst(2), SzField("pre"),
               Defer(EBin("mul", EF("pre"), EC(2))), Defer(EBin("sub", EF("pre"), EC(1))),
               Lam(EBin("add", EF("pre"), EC(1))), Lam(EBin("sub", EF("pre"), EC(2))),
               Lam(EBin("sub", ERest, EC(1))), PadLam,
               Defer(EBin("add", EC(1), EBin("floordiv", EC(2), EF("pre")))),      \* raises for pre = 0, operands left behind
               Defer(EBin("lshift", EC(1), EF("pre"))), Defer(EBin("rshift", EC(4), EF("pre"))), Defer(EBin("mod", EC(5), EF("pre")))}
MarkerModes(b) == {SzMarker(b, i, c) : i \in BOOLEAN, c \in BOOLEAN} \ {SzMarker(b, TRUE, FALSE)}
RegexModes(r) == {SzRegex(r, i, c) : i \in BOOLEAN, c \in BOOLEAN} \ {SzRegex(r, TRUE, FALSE)}
Windows == {-1, 0, 1, 2, 3}

DataDecl(mode, sbl, alpha, n) ==
    DeclO([DefaultOpts EXCEPT !.sbl = sbl], <<U1("pre"), DataF("d", mode), U1("post")>>, alpha, n)

U_C06(zz) ==
    {DataDecl(md, -1, {0, 1, 2, 3}, 5) : md \in SizedModes}
    \cup {DataDecl(md, w, {0, 1, 65}, 5) : md \in MarkerModes(<<0>>), w \in Windows}
    \cup {DataDecl(md, w, {97, 98, 1}, 5) : md \in MarkerModes(<<97, 98>>), w \in Windows}
    \cup {DataDecl(md, w, {97, 1}, 6) : md \in MarkerModes(<<97, 97>>), w \in Windows}
    \cup {DataDecl(md, w, {88, 65, 1}, 5) : md \in RegexModes("Xplus"), w \in Windows}
    \cup {DataDecl(md, w, {13, 10, 65}, 5) : md \in RegexModes("crlf"), w \in Windows}
    \cup {DataDecl(md, w, {88, 89, 1}, 5) : md \in RegexModes("XorY"), w \in Windows}
    \cup {DataDecl(md, w, {88, 10, 1}, 5) : md \in RegexModes("Xplus_or_end"), w \in Windows}
    \cup {DataDecl(md, w, {89, 1}, 6) : md \in RegexModes("Ystar"), w \in Windows}
    \cup {DataDecl(md, w, {0, 1, 65}, 5) : md \in {SzRegex("EOS", FALSE, TRUE)}, w \in {-1, 2}}
    \cup {DataDecl(md, w, {0, 10, 65}, 5) : md \in {SzRegex("dollar", FALSE, TRUE)}, w \in {-1, 2}}
    \* context-sensitive regexes: what precedes the search buffer must not matter
    \cup {DataDecl(md, w, {81, 90, 1}, 5) : md \in RegexModes("QnotZ"), w \in {-1, 2, 3}}
    \cup {DataDecl(md, w, {88, 1}, 5) : md \in RegexModes("caretX"), w \in {-1, 2}}
    \* a regex without any metacharacter, compiled with a FLAG (ignore case)
    \cup {DataDecl(md, w, {88, 120, 1}, 5) : md \in RegexModes("xI"), w \in {-1, 2}}
    \* the delimited field first, so that what precedes it is not part of the packet
    \cup {DeclO(DefaultOpts, <<DataF("d", md), U1("post")>>, {81, 90, 1}, 4) : md \in RegexModes("QnotZ")}
    \cup {DeclO(DefaultOpts, <<DataF("d", md), U1("post")>>, {88, 1}, 4) : md \in RegexModes("caretX") \cup RegexModes("Xplus")}
    \cup {DeclO([DefaultOpts EXCEPT !.sbl = w], <<DataF("d", md), U1("post")>>, {0, 1, 65}, 4) : md \in MarkerModes(<<0>>), w \in {-1, 2}}
    \* the class's search window reaches delimited fields wrapped in a repeated / optional field
    \cup {DeclO([DefaultOpts EXCEPT !.sbl = 2], <<U1("pre"), wrap, U1("post")>>, {0, 1, 65}, 6) :
             wrap \in {RepCountF("r", DataF("e", md), SzField("pre"), NoCond, 0) : md \in MarkerModes(<<0>>)}
                   \cup {OptF("o", DataF("e", md), SzField("pre")) : md \in MarkerModes(<<0>>) \cup {SzRegex("crlf", FALSE, TRUE)}}}
    \* the same field one level down, after a header byte of the outer packet
    \cup {DeclP([C0 |-> Class(DefaultOpts, <<U1("h"), RefF("s", "C1"), U1("t")>>),
                 C1 |-> Class([DefaultOpts EXCEPT !.sbl = w], <<U1("pre"), DataF("d", md), U1("post")>>)],
                {0, 1, 2}, 5, {0, 2}) : md \in {SzField("pre"), SzMarker(<<0>>, FALSE, TRUE), SzMarker(<<0>>, TRUE, TRUE)},
                                        w \in {-1, 2}}

\* -------------------------------------------------------------------- long inputs
\* sizes above 256, delimited values longer than 512 bytes, counts above 256, two- and three-digit fixed sizes: a handful of
\* explicit inputs per declaration (complete, cut short by one byte, one byte too long)
Cuts(x) == {x, SubSeq(x, 1, Len(x) - 1), x \o <<1>>}
U_Long(zz) ==
    {WithInputs(DeclP([C0 |-> Class(DefaultOpts, <<IntF("n", 2, FALSE, "default"), DataF("d", md), U1("z")>>)], {1}, 0, {0, 1}),
                Cuts(RepB(1, 260))) : md \in {SzField("n"), Defer(EBin("add", EF("n"), EC(0))), Lam(EF("n"))}}
    \cup {WithInputs(DeclP([C0 |-> Class([DefaultOpts EXCEPT !.sbl = w], <<U1("a"), DataF("d", SzMarker(<<0>>, inc, TRUE)), U1("z")>>)], {65}, 0, {0, 3}),
                     Cuts(<<7>> \o RepB(65, 520) \o <<0, 9>>)) : inc \in BOOLEAN, w \in {-1, 600}}
    \cup {WithInputs(DeclP([C0 |-> Class(DefaultOpts, <<U1("a"), DataF("d", SzMarker(<<65, 66>>, FALSE, TRUE)), U1("z")>>)], {65}, 0, {0, 1}),
                     Cuts(<<7>> \o RepB(65, 515) \o <<66, 9>>))}
    \cup {WithInputs(DeclP([C0 |-> Class(DefaultOpts, <<U1("a"), DataF("d", SzRegex("Xplus", TRUE, TRUE)), U1("z")>>)], {65}, 0, {0, 2}),
                     Cuts(<<7>> \o RepB(65, 300) \o RepB(88, 3) \o <<9>>))}
    \cup {WithInputs(DeclP([C0 |-> Class(DefaultOpts, <<IntF("n", 2, FALSE, "default"), RepCountF("r", U1("e"), SzField("n"), NoCond, 0), U1("z")>>)], {1}, 0, {0}),
                     Cuts(RepB(1, 260)))}
    \cup {WithInputs(DeclP([C0 |-> Class(DefaultOpts, <<U1("a"), DataF("d", SzConst(k)), IntF("z", 2, FALSE, "default")>>)], {65}, 0, {0, 1}),
                     Cuts(RepB(65, k + 3))) : k \in {11, 33, 100, 111}}

\* longer still, one family per distance at which an implementation might change strategy: sequences of 512 and more
\* multi-byte little-endian integers; 256 and more aligned elements starting at an unaligned position; a greedy regex delimiter
\* lying across 4096 bytes from the cursor; a delimited value of more than 512 bytes whose DELIMITER alone lands on bytes
\* another field wrote; a two-byte marker lying across 65536 bytes from the cursor
Be2(n) == <<n \div 256, n % 256>>
AltB(n) == [i \in 1..n |-> IF i % 2 = 1 THEN 1 ELSE 128]
U_LongSeq(zz) ==
    {WithInputs(DeclP([C0 |-> Class(o, <<IntF("n", 2, FALSE, "big"), RepCountF("r", IntF("e", 2, FALSE, en), SzField("n"), NoCond, 0), U1("z")>>)],
                      {1}, 0, {0, 5}), Cuts(Be2(520) \o AltB(1040) \o <<9>>)) :
        o \in {DefaultOpts, [DefaultOpts EXCEPT !.endian = "little"]}, en \in {"default", "little"}}
U_LongAligned(zz) ==
    {WithInputs(DeclP([C0 |-> Class(DefaultOpts, <<U1("a"), IntF("n", 2, FALSE, "default"),
                                                  RepCountF("r", IntF("e", w, FALSE, "default"), SzField("n"), NoCond, al), U1("z")>>)],
                      {1}, 0, {0}), Cuts(<<7>> \o Be2(k) \o RepB(46, (al - (3 % al)) % al) \o AltB(k * w) \o <<9>>)) :
        w \in {2, 4}, al \in {2}, k \in {255, 256, 300}}
U_LongRegex(zz) ==
    {WithInputs(DeclP([C0 |-> Class(DefaultOpts, <<U1("a"), DataF("d", SzRegex("Xplus", inc, TRUE)), U1("z")>>)], {65}, 0, {0, 1}),
                {<<7>> \o RepB(65, k) \o RepB(88, 6) \o <<9>> : k \in {4090, 4093, 4096}}) : inc \in BOOLEAN}
U_LongCollide(zz) ==
    {WithInputs(DeclP([C0 |-> Class(DefaultOpts, <<[DataF("f", SzConst(4)) EXCEPT !.mv = [kind |-> "at", arg |-> SzConst(700), ref |-> "innermost-pkt"]],
                                                  [IntF("n", 2, FALSE, "default") EXCEPT !.mv = [kind |-> "at", arg |-> SzConst(0), ref |-> "innermost-pkt"]],
                                                  DataF("t", SzMarker(<<10>>, FALSE, TRUE))>>)], {65}, 0, {0}),
                {<<0, 1>> \o RepB(65, k) \o <<10>> \o RepB(66, 704 - (k + 3)) : k \in {697, 698, 699}})}
\* a delimiter that also matches at the end of what is searched (`X+|$`) more than 65536 bytes away; a skipped distance of
\* more than 4096 bytes (the filler of a gap is as long as the gap)
U_LongEnd(zz) ==
    {WithInputs(DeclP([C0 |-> Class(DefaultOpts, <<U1("a"), DataF("d", SzRegex("Xplus_or_end", FALSE, TRUE)), IntF("z", 2, FALSE, "default")>>)], {65}, 0, {0}),
                {<<7>> \o RepB(65, k) \o <<88, 88, 0, 9>> : k \in {65535, 65600}})}
U_LongGap(zz) ==
    {WithInputs(DeclP([C0 |-> Class(DefaultOpts, <<U1("a"), [U1("b") EXCEPT !.mv = [kind |-> "at", arg |-> SzConst(g), ref |-> "innermost-pkt"]], U1("z")>>)], {65}, 0, {0, 1}),
                {<<7>> \o RepB(65, g - 1) \o <<8, 9>>}) : g \in {4096, 4100, 8200}}
U_LongMarker(zz) ==
    {WithInputs(DeclP([C0 |-> Class(DefaultOpts, <<U1("a"), DataF("d", SzMarker(<<13, 10>>, FALSE, TRUE)), U1("z")>>)], {65}, 0, {0}),
                {<<7>> \o RepB(65, k) \o <<13, 10, 9>> : k \in {65534, 65535}})}

\* -------------------------------------------------------------------- C07
\* all compositions of `total` bits into consecutive Bits fields
RECURSIVE Compositions(_)
Compositions(total) ==
    IF total = 0 THEN {<<>>}
    ELSE UNION {{<<w>> \o c : c \in Compositions(total - w)} : w \in 1..total}

BitNames == <<"b1", "b2", "b3", "b4", "b5", "b6", "b7", "b8", "b9", "b10", "b11", "b12", "b13", "b14", "b15", "b16">>
BitFields(ws) == [i \in 1..Len(ws) |-> BitsF(BitNames[i], ws[i])]

U_C07_8(zz) == {Decl1(BitFields(ws), 0..255, 1) : ws \in Compositions(8)}
Lanes == {0, 1, 127, 128, 165, 254, 255}
U_C07_16(zz) == {Decl1(BitFields(ws), Lanes, 2) : ws \in {c \in Compositions(16) : Len(c) <= 4}}
U_C07_24(zz) == {Decl1(<<U1("pre")>> \o BitFields(ws) \o <<U1("post")>>, {0, 165, 255}, 5) :
                ws \in {<<12, 12>>, <<4, 12, 8>>, <<1, 22, 1>>, <<7, 9, 3, 5>>, <<24>>}}
\* runs next to other fields, in nested packets, under a little-endian class default
U_C07_Ctx(zz) ==
    {DeclO([DefaultOpts EXCEPT !.endian = e], <<U1("pre")>> \o BitFields(ws) \o <<IntF("post", 2, FALSE, "default")>>,
           {0, 1, 165, 255}, 5) : ws \in {<<3, 5>>, <<4, 12>>, <<12, 4>>, <<1, 7, 8>>}, e \in {"none", "little"}}
    \cup {DeclP([C0 |-> Class(DefaultOpts, <<BitsF("a", 4), BitsF("b", 4), RefF("s", "C1"), BitsF("c", 2), BitsF("d", 6)>>),
                 C1 |-> Class(DefaultOpts, BitFields(<<5, 3>>))], {0, 90, 255}, 4, {0, 1})}
U_C07(zz) == U_C07_8(0) \cup U_C07_24(0) \cup U_C07_Ctx(0)

\* -------------------------------------------------------------------- C08
Elems == {U1("e"), IntF("e", 2, TRUE, "little"), DataF("e", SzConst(1)), DataF("e", SzMarker(<<0>>, FALSE, TRUE)),
          RefF("e", "C1"),
          RefSelF("e", EF("t"), <<[key |-> 0, alt |-> IntF("", 1, FALSE, "default")],
                                  [key |-> 1, alt |-> IntF("", 2, FALSE, "default")],
                                  [key |-> 2, alt |-> RefF("", "C1")]>>, "chooses", IntV(0)),
          RefSelF("e", EF("t"), <<[key |-> 0, alt |-> DataF("", SzConst(1))],
                                  [key |-> 1, alt |-> RefF("", "C1")]>>, "lambda", IntV(0))}
Counts == {SzConst(-1), SzConst(0), SzConst(2), SzField("n"), Defer(EBin("sub", EF("n"), EC(1))),
           Defer(EBin("add", EC(1), EBin("floordiv", EC(2), EF("n")))),      \* raises for n = 0, mid-evaluation
           Defer(EBin("mul", EF("n"), EC(2))), Lam(EBin("add", EF("n"), EC(1))), Lam(EF("n"))}
Whens == {NoCond, SzField("t"), Defer(EBin("eq", EF("t"), EC(1))), Lam(EBin("gt", EF("t"), EC(0)))}
\* until conditions by element kind
UntilInt == {Lam(EBin("eq", EIdx(EF("r"), EC(-1)), EC(0))), Lam(EBin("ge", EUn("len", EF("r")), EC(2)))}
UntilBytes == {Lam(EBin("eq", EIdx(EF("r"), EC(-1)), EUn("neg", EC(1)))), Lam(EBin("ge", EUn("len", EF("r")), EC(2)))}
UntilPkt == {Lam(EBin("eq", EAttr(EIdx(EF("r"), EC(-1)), "y"), EC(0))), Lam(EBin("ge", EUn("len", EF("r")), EC(2)))}
IsIntElem(e) == e.k = "Int"
IsPktElem(e) == e.k = "Ref"

CtlProg(fields) == [C0 |-> Class(DefaultOpts, fields), C1 |-> Sub1]
CtlDecl(fields, n) == DeclP(CtlProg(fields), {0, 1, 2, 255}, n, {0})

U_C08_Count(zz) == {CtlDecl(<<S1("n"), U1("t"), RepCountF("r", e, c, w, 0), U1("z")>>, 4) :
                   e \in Elems, c \in Counts, w \in {NoCond, SzField("t")}}
               \cup {CtlDecl(<<S1("n"), U1("t"), RepCountF("r", e, SzField("n"), w, a), U1("z")>>, 4) :
                   e \in {U1("e"), RefF("e", "C1")}, w \in Whens, a \in {0, 2, 3}}
\* (per-element alignment is measured from absolute position 0, like 'begins': start offset 0 only)
U_C08_Until(zz) == {CtlDecl(<<U1("t"), RepUntilF("r", e, u, w, a), U1("z")>>, 5) :
                   e \in {U1("e"), IntF("e", 2, TRUE, "little")}, u \in UntilInt, w \in {NoCond, SzField("t")}, a \in {0, 2}}
               \cup {CtlDecl(<<U1("t"), RepUntilF("r", RefF("e", "C1"), u, w, a), U1("z")>>, 5) :
                   u \in UntilPkt, w \in {NoCond, Defer(EBin("eq", EF("t"), EC(1)))}, a \in {0, 3}}
U_C08_Opt(zz) == {CtlDecl(<<U1("t"), OptF("o", e, w), U1("z")>>, 4) : e \in Elems, w \in Whens \ {NoCond}}
             \* a declared default is what a CONSTRUCTED packet holds; a parse that skips the field leaves None
             \cup {CtlDecl(<<U1("t"), [OptF("o", U1("e"), SzField("t")) EXCEPT !.dflt = IntV(7)],
                             [RepCountF("r", U1("e"), SzConst(1), SzField("t"), 0) EXCEPT !.dflt = <<IntV(5)>>], U1("z")>>, 4)}
\* packets inside sequences inside packets
U_C08_Nest(zz) == {DeclP([C0 |-> Class(DefaultOpts, <<S1("n"), RepCountF("r", RefF("e", "C1"), SzField("n"), NoCond, 0), U1("z")>>),
                      C1 |-> Class(DefaultOpts, <<U1("m"), RepCountF("s", U1("e"), SzField("m"), NoCond, 0),
                                                  OptF("o", RefF("e", "C2"), Defer(EBin("gt", EF("m"), EC(1))))>>),
                      C2 |-> Class(DefaultOpts, <<U1("q")>>)], {0, 1, 2}, 6, {0, 1})}
\* two references (plain and repeated) selecting from ONE shared option table
SharedAlts == <<[key |-> 0, alt |-> IntF("", 1, FALSE, "default")], [key |-> 1, alt |-> IntF("", 2, FALSE, "default")],
                [key |-> 2, alt |-> DataF("", SzConst(1))]>>
U_C08_Shared(zz) == {CtlDecl(<<U1("t"), RefSelSharedF("v", EF("t"), SharedAlts, "T1", IntV(0)),
                           RefSelSharedF("w", EF("t"), SharedAlts, "T1", IntV(0)), U1("z")>>, 6),
                 CtlDecl(<<U1("t"), U1("n"), RepCountF("r", RefSelSharedF("e", EF("t"), SharedAlts, "T1", IntV(0)), SzField("n"), NoCond, 0),
                           RefSelSharedF("w", EF("t"), SharedAlts, "T1", IntV(0))>>, 6)}
\* a packet INSTANCE handed out by a selector: its optional field (declared default 7) is absent in the input -> None;
\* a class whose size expression is evaluated on its own packets and, embedded, on the embedding class's packets
SubOpt == Class(DefaultOpts, <<U1("t"), [OptF("o", U1("e"), SzField("t")) EXCEPT !.dflt = IntV(7)], U1("y")>>)
SubExpr == Class(DefaultOpts, <<U1("x"), DataF("y", Defer(EBin("add", EF("x"), EC(1))))>>)
U_C08_Sel(zz) == {DeclP([C0 |-> Class(DefaultOpts, <<U1("k"), RefSelF("v", EF("k"), <<[key |-> 0, alt |-> RefF("", "C1")], [key |-> 1, alt |-> IntF("", 1, FALSE, "default")]>>,
                                                                      fm, IntV(0)), U1("z")>>), C1 |-> SubOpt], {0, 1, 2}, 5, {0}) : fm \in {"lambda", "chooses"}}
             \cup {DeclP([C0 |-> Class(DefaultOpts, <<U1("n"), RepCountF("r", RefSelF("e", EC(0), <<[key |-> 0, alt |-> RefF("", "C1")]>>, "lambda", IntV(0)), SzField("n"), NoCond, 0)>>),
                          C1 |-> SubOpt], {0, 1, 2}, 6, {0}),
                    DeclP([C0 |-> Class(DefaultOpts, Embedded("p", "C1", <<>>, SubExpr.fields) \o <<RefF("s", "C1"), U1("z")>>), C1 |-> SubExpr], {0, 1, 2}, 6, {0}),
                    DeclP([C0 |-> Class(DefaultOpts, <<RefF("s", "C1")>> \o Embedded("p", "C1", <<>>, SubExpr.fields)), C1 |-> SubExpr], {0, 1, 2}, 6, {0})}
\* alternatives that differ ONLY in signedness / byte order (same width): what one parse selected must not colour the next,
\* through one reference or through the elements of a sequence of packets
SignAlts == <<[key |-> 0, alt |-> IntF("", 2, FALSE, "default")], [key |-> 1, alt |-> IntF("", 2, TRUE, "default")],
              [key |-> 2, alt |-> IntF("", 2, TRUE, "little")], [key |-> 3, alt |-> IntF("", 2, FALSE, "little")]>>
\* conditions / counts over ONE field that differ only in a constant, the constants having equal hashes (-1 and -2): each
\* keeps its own meaning, whatever is remembered about expressions compiled earlier
U_C08_Hash(zz) == {DeclP([C0 |-> Class(DefaultOpts, <<S1("t"), OptF("o", U1("e"), Defer(EBin("eq", EF("t"), EC(0 - 1)))),
                                                     OptF("q", U1("e"), Defer(EBin("eq", EF("t"), EC(0 - 2)))), U1("z")>>)], {0, 1, 254, 255}, 4, {0}),
                   DeclP([C0 |-> Class(DefaultOpts, <<S1("t"), RepCountF("r", U1("e"), Defer(EBin("mul", EF("t"), EC(0 - 1))), NoCond, 0),
                                                     RepCountF("s", U1("e"), Defer(EBin("mul", EF("t"), EC(0 - 2))), NoCond, 0), U1("z")>>)], {0, 1, 254, 255}, 4, {0})}
U_C08_Sign(zz) == {DeclP([C0 |-> Class(DefaultOpts, <<U1("k"), RefSelF("v", EF("k"), SignAlts, fm, IntV(0)), U1("z")>>)], {0, 1, 2, 255}, 4, {0}) :
                      fm \in {"lambda", "chooses"}}
              \cup {DeclP([C0 |-> Class(DefaultOpts, <<U1("n"), RepCountF("r", RefF("e", "C1"), SzField("n"), NoCond, 0)>>),
                           C1 |-> Class(DefaultOpts, <<U1("k"), RefSelF("v", EF("k"), SubSeq(SignAlts, 1, 2), "lambda", IntV(0))>>)], {0, 1, 255}, 7, {0})}
\* the controlling field is a DESCRIBED field (parsing reads what the bytes said, not what the descriptor computes)
AutoLenOf(f, of) == WithDesc(f, [kind |-> "autolen", of |-> of])
AutoE(f, e) == WithDesc(f, [kind |-> "auto", e |-> e])
U_C08_Desc(zz) == {CtlDecl(<<AutoLenOf(U1("n"), "r"), U1("t"), RepCountF("r", U1("e"), c, NoCond, 0), U1("z")>>, 4) :
                     c \in {SzField("n"), Defer(EBin("sub", EF("n"), EC(0))), Defer(EBin("mul", EF("n"), EC(2)))}}
              \cup {CtlDecl(<<AutoE(U1("n"), EC(1)), OptF("o", U1("e"), w), U1("z")>>, 3) :
                     w \in {SzField("n"), Defer(EBin("eq", EF("n"), EC(2)))}}
              \cup {CtlDecl(<<AutoE(U1("n"), EC(0)), RefSelF("v", EF("n"), <<[key |-> 0, alt |-> IntF("", 1, FALSE, "default")],
                                                                             [key |-> 1, alt |-> IntF("", 2, FALSE, "default")]>>, "chooses", IntV(0)),
                             U1("z")>>, 4),
                     CtlDecl(<<AutoLenOf(U1("n"), "d"), DataF("d", Defer(EBin("add", EF("n"), EC(0)))), U1("z")>>, 4),
                     \* a prototype built WITH the described keyword: packets parsed through the reference are not "assigned"
                     DeclP([C0 |-> Class(DefaultOpts, <<U1("h"), [RefF("s", "C1") EXCEPT !.over = <<[n |-> "n", v |-> IntV(9)]>>], U1("t")>>),
                            C1 |-> Class(DefaultOpts, <<AutoLenOf(U1("n"), "d"), DataF("d", SzMarker(<<0>>, FALSE, TRUE))>>)],
                           {0, 1, 2, 65}, 5, {0})}
\* embedding references: the fields of the referenced class parsed / serialised as fields of the embedding class
SubLen == Class(DefaultOpts, <<AutoLenOf(U1("n"), "d"), DataF("d", SzField("n"))>>)
U_C08_Emb(zz) == {DeclP([C0 |-> Class(DefaultOpts, <<U1("h")>> \o Embedded("p", "C1", <<>>, Sub1.fields) \o <<U1("z")>>), C1 |-> Sub1], {0, 1, 2}, 5, {0, 1}),
                  DeclP([C0 |-> Class(DefaultOpts, Embedded("l", "C1", <<>>, SubLen.fields) \o <<U1("z")>>), C1 |-> SubLen], {0, 1, 2, 65}, 5, {0, 1}),
                  DeclP([C0 |-> Class(DefaultOpts, <<U1("h"), RefF("s", "C1"), U1("t")>>),
                         C1 |-> Class(DefaultOpts, Embedded("p", "C2", <<>>, Sub1.fields) \o <<OptF("o", U1("e"), Lam(EF("x")))>>),
                         C2 |-> Sub1], {0, 1, 2}, 5, {0})}
U_C08(zz) == U_C08_Hash(0) \cup U_C08_Sign(0) \cup U_C08_Count(0) \cup U_C08_Until(0) \cup U_C08_Opt(0) \cup U_C08_Nest(0) \cup U_C08_Shared(0) \cup U_C08_Desc(0) \cup U_C08_Emb(0)
             \cup U_C08_Sel(0)

\* -------------------------------------------------------------------- C10
Refs == {"innermost-pkt", "begins", "current-offset"}
MvArgs == {SzConst(0), SzConst(1), SzConst(3), SzField("a"), Lam(EBin("add", EF("a"), EC(1)))}
AlArgs == {SzConst(1), SzConst(2), SzConst(3), SzConst(4), SzField("a")}
Mods == {[kind |-> "at", arg |-> g, ref |-> r] : g \in MvArgs, r \in Refs}
        \cup {[kind |-> "shift", arg |-> g, ref |-> "current-offset"] : g \in MvArgs \cup {SzConst(-1), SzConst(-2)}}
        \cup {[kind |-> "aligned", arg |-> g, ref |-> r] : g \in AlArgs, r \in Refs}
MvField(f, mv) == [f EXCEPT !.mv = mv]
UsesBegins(mv) == mv.kind \in {"at", "aligned"} /\ mv.ref = "begins"

\* flat: [a, b.<modifier>, c]; nested: the same class one level down behind a header
U_C10_Flat(zz) == {DeclP([C0 |-> Class(DefaultOpts, <<S1("a"), MvField(U1("b"), mv), U1("c")>>)], {0, 1, 2, 255}, 4,
                      IF UsesBegins(mv) THEN {0} ELSE {0, 1, 3}) : mv \in Mods}
U_C10_Nest(zz) == {DeclP([C0 |-> Class(DefaultOpts, <<U1("h"), RefF("s", "C1"), U1("t")>>),
                      C1 |-> Class(DefaultOpts, <<S1("a"), MvField(U1("b"), mv), U1("c")>>)], {0, 1, 2}, 5,
                     IF UsesBegins(mv) THEN {0} ELSE {0, 2}) : mv \in Mods}
U_C10_Class(zz) == {DeclO([DefaultOpts EXCEPT !.align = al], <<U1("a"), IntF("b", 2, FALSE, "default"), U1("c"), EmF("tail")>>,
                      {0, 1}, 7) : al \in {2, 3, 4}}
               \cup {DeclP([C0 |-> Class(DefaultOpts, <<U1("h"), RefF("s", "C1")>>),
                            C1 |-> Class([DefaultOpts EXCEPT !.align = al], <<U1("a"), U1("b")>>)], {0, 1}, 6, {0}) : al \in {2, 3}}
               \* a class-wide alignment next to fields with a modifier of their own whose argument is ZERO (the way to keep one field
               \* tightly packed / at the very start): an explicit 0 is a position, not "no position"
               \cup {DeclP([C0 |-> Class([DefaultOpts EXCEPT !.align = al], <<MvField(U1("a"), [kind |-> "at", arg |-> SzConst(al), ref |-> "innermost-pkt"]),
                                                                            MvField(U1("b"), [kind |-> "at", arg |-> SzConst(0), ref |-> r]),
                                                                            MvField(U1("c"), [kind |-> "shift", arg |-> SzConst(0), ref |-> "current-offset"])>>)],
                           {0, 1, 46}, 5, {0}) : al \in {2, 4}, r \in {"innermost-pkt", "begins"}}
               \cup {DeclP([C0 |-> Class(DefaultOpts, <<U1("h"), U1("g"), U1("f"), RefF("s", "C1")>>),
                            C1 |-> Class([DefaultOpts EXCEPT !.align = 2], <<U1("a"), MvField(U1("b"), [kind |-> "shift", arg |-> SzConst(0), ref |-> "current-offset"]), U1("c")>>)],
                           {0, 1}, 8, {0})}
U_C10_Elem(zz) == {DeclP([C0 |-> Class(DefaultOpts, <<U1("n"), RepCountF("r", e, SzField("n"), NoCond, al), MvField(EmF("tail"), mv)>>),
                      C1 |-> Class(DefaultOpts, <<U1("x")>>)], {0, 1, 2}, 6, {0}) :
                 e \in {U1("e"), RefF("e", "C1"), IntF("e", 3, FALSE, "default")}, al \in {2, 3, 4, 6},
                 mv \in {NoMv, [kind |-> "aligned", arg |-> SzConst(4), ref |-> "innermost-pkt"]}}
              \cup {DeclP([C0 |-> Class(DefaultOpts, <<RepUntilF("r", U1("e"), Lam(EBin("eq", EIdx(EF("r"), EC(-1)), EC(0))), NoCond, al), U1("z")>>)],
                          {0, 1, 2}, 6, {0}) : al \in {2, 3}}
\* a later field placed BEFORE an earlier one (no overlap): output order differs from position order
U_C10_Back(zz) == {DeclP([C0 |-> Class(DefaultOpts, <<MvField(IntF("a", 2, FALSE, "default"), [kind |-> "at", arg |-> SzConst(qa), ref |-> r]),
                                                  MvField(U1("b"), [kind |-> "at", arg |-> SzConst(qb), ref |-> r]), U1("c")>>)],
                     {0, 1, 2}, 5, IF r = "begins" THEN {0} ELSE {0, 1}) :
                  qa \in {2, 3}, qb \in {0, 1}, r \in {"innermost-pkt", "begins"}}
              \cup {DeclP([C0 |-> Class(DefaultOpts, <<U1("h"), IntF("a", 2, FALSE, "default"),
                                                       MvField(U1("b"), [kind |-> "shift", arg |-> SzConst(0 - k), ref |-> "current-offset"]),
                                                       U1("c")>>)], {0, 1, 2}, 5, {0, 1}) : k \in {1, 2, 3}}
\* the target of a Move is a DESCRIBED field: a parse goes where the bytes say (conformance only: the value a
\* pack writes there is the computed one, so pack and unpack positions may legitimately differ)
U_C10_Desc(zz) == {DeclP([C0 |-> Class(DefaultOpts, <<AutoE(U1("a"), EC(2)), MvField(U1("b"), mv), U1("c")>>)], {0, 1, 2, 3}, 5, {0, 1}) :
                     mv \in {[kind |-> "at", arg |-> SzField("a"), ref |-> "innermost-pkt"],
                              [kind |-> "shift", arg |-> SzField("a"), ref |-> "current-offset"],
                              [kind |-> "aligned", arg |-> SzField("a"), ref |-> "innermost-pkt"]}}
              \cup {DeclP([C0 |-> Class(DefaultOpts, <<U1("h"), RefF("s", "C1"), U1("t")>>),
                           C1 |-> Class(DefaultOpts, <<AutoLenOf(U1("a"), "d"),
                                                       MvField(DataF("d", SzConst(1)), [kind |-> "at", arg |-> SzField("a"), ref |-> "innermost-pkt"])>>)],
                          {0, 1, 2, 3}, 5, {0})}
\* callables of Move targets that read the keywords `innermost-pkt-pos` and `root`, one level down and below an optional
U_C10_Kw(zz) == {DeclP([C0 |-> Class(DefaultOpts, <<U1("h"), U1("w"), wrap, U1("t")>>),
                        C1 |-> Class(DefaultOpts, <<U1("a"), MvField(U1("b"), mv), U1("c")>>)], {0, 1, 2}, 7, {0}) :
                   wrap \in {RefF("s", "C1"), OptF("s", RefF("e", "C1"), SzField("w"))},
                   mv \in {[kind |-> "at", arg |-> Lam(EBin("add", EIPos, EC(2))), ref |-> "begins"],
                           [kind |-> "at", arg |-> Lam(EBin("add", ERoot("w"), EC(1))), ref |-> "innermost-pkt"],
                           [kind |-> "shift", arg |-> Lam(ERoot("w")), ref |-> "current-offset"]}}
U_C10(zz) == U_C10_Kw(0) \cup U_C10_Flat(0) \cup U_C10_Nest(0) \cup U_C10_Class(0) \cup U_C10_Elem(0) \cup U_C10_Back(0)

\* -------------------------------------------------------------------- C03
\* runs of fixed-size fields with and without a struct code, mixed byte order and signedness, variable
\* fields between them: what the code generator groups into blocks
FixedKinds == {U1("f"), IntF("f", 2, FALSE, "default"), IntF("f", 2, FALSE, "little"), IntF("f", 2, TRUE, "big"),
               IntF("f", 3, FALSE, "default"), DataF("f", SzConst(2))}
Rename(f, nm) == [f EXCEPT !.name = nm]
U_C03_Fixed(zz) == {DeclO([DefaultOpts EXCEPT !.endian = e], <<Rename(a, "a"), Rename(b, "b"), Rename(c, "c")>>, {0, 255}, 6) :
                   a \in FixedKinds, b \in FixedKinds, c \in FixedKinds, e \in {"none"}}
               \cup {DeclO([DefaultOpts EXCEPT !.endian = "little"], <<Rename(a, "a"), Rename(b, "b"), IntF("c", 2, FALSE, "network")>>, {0, 255}, 6) :
                   a \in FixedKinds, b \in FixedKinds}
U_C03_Mixed(zz) ==
    {DeclP([C0 |-> Class(DefaultOpts, <<U1("a"), IntF("b", 2, FALSE, "default"), mid, IntF("y", 2, FALSE, "little"), U1("z")>>), C1 |-> Sub1],
           {0, 1, 2}, 7, {0, 1}) :
        mid \in {DataF("m", SzField("a")), RefF("m", "C1"), RepCountF("m", U1("e"), SzField("a"), NoCond, 0),
                 OptF("m", IntF("e", 2, FALSE, "default"), SzField("a")), DataF("m", SzMarker(<<0>>, FALSE, TRUE)),
                 WithMv(U1("m"), "at", SzConst(4), "innermost-pkt")}}
    \cup {DeclO(DefaultOpts, <<U1("a"), BitsF("h", 4), BitsF("l", 4), IntF("b", 2, FALSE, "default"), U1("z")>>, {0, 165, 255}, 5),
          DeclO(DefaultOpts, <<WithDesc(U1("n"), [kind |-> "autolen", of |-> "d"]), IntF("m", 2, FALSE, "default"), DataF("d", SzField("n")),
                               U1("z")>>, {0, 1, 2}, 6),
          DeclO(DefaultOpts, <<IntF("a", 4, TRUE, "default"), IntF("b", 4, FALSE, "little"), U1("z")>>, {0, 1, 127}, 9),
          \* an embedding reference followed by fields that generated code reaches through the field list
          DeclP([C0 |-> Class(DefaultOpts, <<U1("a")>> \o Embedded("p", "C1", <<>>, Sub1.fields)
                                           \o <<DataF("m", SzMarker(<<0>>, FALSE, TRUE)), IntF("t", 3, FALSE, "default"), U1("z")>>), C1 |-> Sub1],
                {0, 1, 2}, 7, {0})}
\* what a code generator may get wrong only beyond pairs: a fixed byte string BETWEEN integers of opposite byte order; ten
\* consecutive fields without a struct code (a long run of loop-coded fields); integers of the host's byte order and of
\* growing width next to each other (a native-alignment format would pad them)
IntN(nm, i) == IntF(nm \o ToString(i), 3, FALSE, "default")
U_C03_More(zz) ==
    {DeclO(DefaultOpts, <<IntF("a", 2, FALSE, e1), DataF("d", SzConst(nd)), IntF("b", 2, FALSE, e2), U1("z")>>, {1, 2}, 7) :
        e1 \in {"default", "little"}, e2 \in {"default", "little"}, nd \in {1, 2}}
    \cup {WithInputs(DeclO(DefaultOpts, [i \in 1..10 |-> IntN("f", i)], {1}, 0),
                     {[i \in 1..30 |-> i % 5], [i \in 1..29 |-> i % 5], [i \in 1..31 |-> i % 5], [i \in 1..27 |-> 1]})}
    \cup {WithInputs(DeclO(DefaultOpts, <<IntF("a", 1, FALSE, "local"), IntF("b", 2, FALSE, "local"), IntF("c", 4, TRUE, "local"), U1("z")>>, {1}, 0),
                     {<<1, 2, 0, 3, 0, 0, 0, 9>>, <<1, 2, 0, 3, 0, 0, 0>>, <<1, 2, 0, 254, 255, 255, 255, 9>>, <<1, 2, 0, 3, 0, 0, 0, 9, 9>>}),
          WithInputs(DeclO([DefaultOpts EXCEPT !.endian = "local"], <<U1("a"), IntF("b", 4, FALSE, "default"), IntF("c", 2, FALSE, "default")>>, {1}, 0),
                     {<<1, 2, 0, 0, 0, 3, 0>>, <<1, 2, 0, 0, 0, 3>>, <<1, 2, 0, 0, 0, 3, 0, 7>>})}
U_C03(zz) == U_C03_Fixed(0) \cup U_C03_Mixed(0) \cup U_C03_More(0) \cup U_Long(0) \cup U_LongSeq(0) \cup U_LongAligned(0)
U_C03_Q(zz) == {d \in U_C03_Fixed(0) : d.prog["C0"].opts.endian = "little" \/ d.prog["C0"].fields[1].k = "Data"
                                 \/ (d.prog["C0"].fields[1].k = "Int" /\ d.prog["C0"].fields[1].n \in {1, 3})} \cup U_C03_Mixed(0) \cup U_C03_More(0) \cup U_Long(0)

\* -------------------------------------------------------------------- C12
\* nested declarations driven into failure at every depth
\* a class that refers to itself, parsed 18 levels deep and cut short at the bottom; an expression that raises half-way
\* (operands left behind) in front of a field that can fail on its own
U_C12_Deep(zz) ==
    {WithInputs(DeclP([C0 |-> Class(DefaultOpts, <<U1("t"), U1("v"),
                                  OptF("o", RefSelF("e", EC(0), <<[key |-> 0, alt |-> RefF("", "C0")]>>, "lambda", IntV(0)), SzField("t"))>>)], {1}, 0, {0, 1}),
                {RepB(1, 36), RepB(1, 36) \o <<0, 5>>, RepB(1, 36) \o <<0>>, RepB(1, 40) \o <<0, 5>>}),
     DeclP([C0 |-> Class(DefaultOpts, <<U1("pre"), DataF("d", Defer(EBin("add", EC(1), EBin("floordiv", EC(2), EF("pre"))))),
                                        IntF("post", 2, FALSE, "default")>>)], {0, 1, 2}, 6, {0})}
U_C12(zz) == U_C12_Deep(0) \cup
    {DeclP([C0 |-> Class(DefaultOpts, <<U1("h"), RefF("s", "C1"), IntF("t", 2, FALSE, "default")>>),
            C1 |-> Class(DefaultOpts, <<U1("n"), RepCountF("r", RefF("e", "C2"), SzField("n"), NoCond, 0),
                                        OptF("o", IntF("e", 3, FALSE, "default"), SzField("n"))>>),
            C2 |-> Class(DefaultOpts, <<U1("k"), DataF("d", SzField("k")), DataF("m", SzMarker(<<0>>, FALSE, TRUE))>>)],
           {0, 1, 2}, 7, {0, 1}),
     DeclP([C0 |-> Class(DefaultOpts, <<U1("t"),
                                        RefSelF("v", EF("t"), <<[key |-> 0, alt |-> IntF("", 2, FALSE, "default")],
                                                                [key |-> 1, alt |-> RefF("", "C1")]>>, "chooses", IntV(0)),
                                        U1("z")>>),
            C1 |-> Class(DefaultOpts, <<U1("x"), DataF("y", Defer(EBin("floordiv", EC(4), EF("x"))))>>)],
           {0, 1, 2, 3}, 6, {0, 2}),
     DeclP([C0 |-> Class(DefaultOpts, <<U1("a"), IntF("b", 2, FALSE, "default"), IntF("c", 3, FALSE, "default"),
                                        IntF("d", 2, FALSE, "little"), DataF("e", SzConst(2)), U1("f"), BitsF("g", 4), BitsF("i", 4)>>)],
           {0, 1}, 9, {0}),
     DeclP([C0 |-> Class(DefaultOpts, <<S1("a"), MvField(DataF("b", SzConst(1)), [kind |-> "at", arg |-> SzField("a"), ref |-> "innermost-pkt"]),
                                        MvField(U1("c"), [kind |-> "shift", arg |-> SzField("a"), ref |-> "current-offset"])>>)],
           {0, 1, 2, 254, 255}, 5, {0, 1}),
     DeclP([C0 |-> Class(DefaultOpts, <<RepUntilF("r", RefF("e", "C1"), Lam(EBin("eq", EAttr(EIdx(EF("r"), EC(-1)), "x"), EC(0))), NoCond, 0)>>),
            C1 |-> Class(DefaultOpts, <<U1("x"), DataF("d", SzField("x"))>>)], {0, 1, 2}, 6, {0}),
     \* a descriptor whose after-unpack hook verifies the parsed value (top level and nested)
     DeclP([C0 |-> Class(DefaultOpts, <<WithDesc(U1("n"), [kind |-> "verify", e |-> EUn("len", EF("d"))]), DataF("d", SzMarker(<<0>>, FALSE, TRUE)), U1("z")>>)],
           {0, 1, 2, 65}, 5, {0, 1}),
     DeclP([C0 |-> Class(DefaultOpts, <<U1("h"), RefF("s", "C1"), U1("t")>>),
            C1 |-> Class(DefaultOpts, <<WithDesc(U1("n"), [kind |-> "verify", e |-> EUn("len", EF("d"))]), DataF("d", SzMarker(<<0>>, FALSE, TRUE))>>)],
           {0, 1, 65}, 5, {0}),
     \* two described fields whose descriptors bring DIFFERENT hooks (before-pack only / after-unpack only): a failing hook
     \* is reported under the name of its own field
     DeclP([C0 |-> Class(DefaultOpts, <<WithDesc(U1("n"), [kind |-> "autolen", of |-> "d"]),
                                        WithDesc(U1("m"), [kind |-> "check", e |-> EUn("len", EF("d"))]), DataF("d", SzMarker(<<0>>, FALSE, TRUE))>>)],
           {0, 1, 2, 65}, 5, {0, 1}),
     \* corrupted length fields: a signed length, a length expression that goes negative
     DeclP([C0 |-> Class(DefaultOpts, <<U1("h"), RefF("s", "C1"), U1("t")>>),
            C1 |-> Class(DefaultOpts, <<S1("n"), DataF("d", SzField("n")), U1("z")>>)], {0, 1, 2, 254, 255}, 5, {0, 1}),
     DeclP([C0 |-> Class(DefaultOpts, <<U1("n"), DataF("d", Defer(EBin("sub", EF("n"), EC(2)))), DataF("e", Lam(EBin("sub", EF("n"), EC(3)))), U1("z")>>)],
           {0, 1, 2, 3, 4}, 5, {0}),
     \* a failure whose own message contains a per-cent sign (int % bytes); a kept delimiter that never comes
     DeclP([C0 |-> Class(DefaultOpts, <<U1("a"), DataF("d", SzConst(1)), DataF("e", Defer(EBin("mod", EF("a"), EF("d")))), U1("z")>>)],
           {0, 1, 2}, 4, {0}),
     DeclP([C0 |-> Class([DefaultOpts EXCEPT !.sbl = 3], <<U1("h"), RefF("s", "C1"), U1("t")>>),
            C1 |-> Class([DefaultOpts EXCEPT !.sbl = 3], <<DataF("m", SzMarker(<<0, 0>>, TRUE, TRUE)), U1("y")>>)], {0, 1}, 6, {0})}

\* -------------------------------------------------------------------- C04 extras
\* a fixed-size Data alone in its block of generated code; fields placed past the end of the input (F13)
EOSData(n) == DataF(n, SzRegex("EOS", FALSE, TRUE))
U_C04_Lone(zz) ==
    {DeclO(DefaultOpts, <<DataF("m", SzMarker(<<0>>, FALSE, TRUE)), DataF("d", SzConst(2)), DataF("n", SzMarker(<<0>>, TRUE, TRUE))>>, {0, 1, 65}, 5),
     DeclO(DefaultOpts, <<IntF("a", 3, FALSE, "default"), DataF("d", SzConst(2)), IntF("b", 3, TRUE, "little")>>, {0, 255}, 8),
     DeclO(DefaultOpts, <<DataF("d", SzConst(3))>>, {0, 65}, 4),
     DeclO([DefaultOpts EXCEPT !.align = 2], <<IntF("a", 3, FALSE, "default"), EOSData("d")>>, {0, 1}, 5),
     DeclO([DefaultOpts EXCEPT !.align = 4], <<U1("a"), EOSData("d"), EmF("tail")>>, {0, 1}, 5),
     \* a counted run of integers as the last thing decoded (a cut on an element boundary loses whole elements)
     DeclO(DefaultOpts, <<U1("n"), RepCountF("r", U1("e"), SzField("n"), NoCond, 0)>>, {0, 1, 2, 3}, 4),
     DeclO(DefaultOpts, <<U1("n"), RepCountF("r", IntF("e", 2, FALSE, "little"), SzField("n"), NoCond, 0)>>, {0, 1, 2}, 5)}
    \cup {DeclP([C0 |-> Class(DefaultOpts, <<U1("a"), MvField(EOSData("d"), mv), EmF("tail")>>)], {0, 1, 2}, 4, {0, 1}) :
             mv \in {[kind |-> "at", arg |-> SzConst(3), ref |-> "innermost-pkt"],
                      [kind |-> "shift", arg |-> SzField("a"), ref |-> "current-offset"],
                      [kind |-> "aligned", arg |-> SzConst(4), ref |-> "innermost-pkt"]}}
    \cup {DeclP([C0 |-> Class(DefaultOpts, <<U1("a"), MvField(f, [kind |-> "shift", arg |-> SzField("a"), ref |-> "current-offset"])>>),
                 C1 |-> Sub1], {0, 1, 2}, 4, {0}) :
             f \in {DataF("d", SzConst(0)), DataF("d", SzConst(1)), RepCountF("d", U1("e"), SzConst(0), NoCond, 0),
                    DataF("d", SzMarker(<<0>>, FALSE, TRUE)), DataF("d", SzRegex("Ystar", TRUE, TRUE)), RefF("d", "C1")}}
    \* a field placed (by an earlier field) where the input ends in the middle of it, FOLLOWED by a field placed back inside
    \* the input: the parse position at the end is inside the input although a value was cut short
    \cup {DeclP([C0 |-> Class(DefaultOpts, <<U1("t"), MvField(f, [kind |-> "at", arg |-> SzField("t"), ref |-> "innermost-pkt"]),
                                             MvField(DataF("l", SzConst(2)), [kind |-> "at", arg |-> SzConst(1), ref |-> "innermost-pkt"])>>)],
                {0, 2, 3, 4}, 5, {0, 1}) :
             f \in {IntF("c", 3, FALSE, "default"), IntF("c", 2, TRUE, "little"), DataF("c", SzConst(3)), U1("c")}}
    \cup {DeclP([C0 |-> Class(DefaultOpts, <<U1("t"), MvField(BitsF("h", 4), [kind |-> "at", arg |-> SzField("t"), ref |-> "innermost-pkt"]), BitsF("m", 12), BitsF("l", 8),
                                             MvField(U1("z"), [kind |-> "at", arg |-> SzConst(0), ref |-> "innermost-pkt"])>>)],
                {1, 2, 3, 255}, 5, {0}) }

\* -------------------------------------------------------------------- C01 / C14
\* mixed declarations; C01 leaves out what the property excludes (non-kept regex delimiters other
\* than EOS, consume_delimiter=False) and described fields.
RoundTripModes == {SzConst(0), SzConst(2), SzField("a"), Defer(EBin("mul", EF("a"), EC(2))), Defer(EBin("sub", EF("a"), EC(1))),
                   Lam(EBin("add", EF("a"), EC(1))),
                   SzMarker(<<0>>, FALSE, TRUE), SzMarker(<<0>>, TRUE, TRUE), SzMarker(<<1, 2>>, FALSE, TRUE),
                   SzRegex("Xplus", TRUE, TRUE), SzRegex("EOS", FALSE, TRUE)}
AlphaFor(md) == IF md.m = "regex" THEN {88, 1, 2} ELSE {0, 1, 2}
U_C01_Data(zz) == {DeclO([DefaultOpts EXCEPT !.sbl = w, !.endian = e],
                     <<U1("a"), DataF("d", md), IntF("z", 2, TRUE, "default")>>, AlphaFor(md), 6) :
                  md \in RoundTripModes, w \in {-1, 3}, e \in {"none", "little"}}
U_C01_Move(zz) == {[d EXCEPT !.alpha = {0, 1, 2, 46}] : d \in U_C10_Flat(0) \cup U_C10_Class(0) \cup U_C10_Elem(0)}
U_C01_Ctl(zz) == {d \in U_C08_Count(0) : d.prog["C0"].fields[3].count \in {SzField("n"), Defer(EBin("sub", EF("n"), EC(1)))}}
             \cup U_C08_Until(0) \cup U_C08_Opt(0) \cup U_C08_Nest(0)
\* overlapping placements: two fields that may consume common bytes
U_C01_Overlap(zz) == {DeclP([C0 |-> Class(DefaultOpts, <<U1("a"), DataF("b", SzConst(2)),
                                                    MvField(DataF("c", SzField("a")), [kind |-> "at", arg |-> g, ref |-> "innermost-pkt"]),
                                                    MvField(U1("d"), [kind |-> "at", arg |-> SzConst(h), ref |-> "begins"])>>)],
                        {0, 1, 2, 46}, 5, {0}) : g \in {SzConst(0), SzConst(2), SzConst(3), SzConst(4)}, h \in {1, 3, 5}}
\* placed high first, then back at the start, then fields that follow each other into the first one
U_C01_Overlap3(zz) == {DeclP([C0 |-> Class(DefaultOpts, <<MvField(DataF("f", SzConst(2)), [kind |-> "at", arg |-> SzConst(hp), ref |-> "innermost-pkt"]),
                                                         MvField(U1("k"), [kind |-> "at", arg |-> SzConst(0), ref |-> "innermost-pkt"]),
                                                         DataF("l", SzMarker(<<0>>, FALSE, TRUE)), U1("z")>>)],
                             {0, 1, 65}, 6, {0}) : hp \in {2, 3, 4}}
U_C01_OverlapEm(zz) == {DeclP([C0 |-> Class(DefaultOpts, <<MvField(EmF("e"), [kind |-> "at", arg |-> SzConst(2), ref |-> "innermost-pkt"]),
                                                          MvField(DataF("b", SzConst(2)), [kind |-> "at", arg |-> SzConst(3), ref |-> "innermost-pkt"]),
                                                          MvField(DataF("c", SzConst(n)), [kind |-> "at", arg |-> SzConst(1), ref |-> "innermost-pkt"])>>)],
                              {0, 1, 46}, 5, {0, 1}) : n \in {2, 4}}
U_C01_Before(zz) == {DeclP([C0 |-> Class(DefaultOpts, <<MvField(DataF("a", SzConst(n1)), [kind |-> "at", arg |-> SzConst(qa), ref |-> "innermost-pkt"]),
                                                     MvField(DataF("b", SzConst(n2)), [kind |-> "at", arg |-> SzConst(qb), ref |-> "innermost-pkt"])>>)],
                       {0, 1, 46}, 6, {0, 1}) : n1 \in {1, 2}, qa \in {2, 4}, n2 \in {1, 3, 4}, qb \in {0, 1, 2}}
\* the `root` keyword of callables: the packet that started the operation, read from one and two levels down,
\* below optional / repeated / selected fields
RootSel == RefSelF("e", ERoot("w"), <<[key |-> 0, alt |-> IntF("", 1, FALSE, "default")],
                                      [key |-> 1, alt |-> IntF("", 2, FALSE, "default")],
                                      [key |-> 2, alt |-> DataF("", SzConst(1))]>>, "lambda", IntV(0))
RootFields == {DataF("d", Lam(ERoot("w"))),
               OptF("o", DataF("e", Lam(ERoot("w"))), SzField("t")),
               OptF("o", U1("e"), Lam(EBin("gt", ERoot("w"), EC(1)))),
               RepCountF("r", U1("e"), Lam(ERoot("w")), NoCond, 0),
               RepCountF("r", DataF("e", Lam(ERoot("w"))), SzField("t"), NoCond, 0),
               MvField(U1("b"), [kind |-> "at", arg |-> Lam(EBin("add", ERoot("w"), EC(1))), ref |-> "innermost-pkt"]),
               OptF("o", RootSel, SzField("t")),
               RepCountF("r", RootSel, SzField("t"), NoCond, 0)}
U_C01_Root(zz) == {DeclP([C0 |-> Class(DefaultOpts, <<U1("w"), RefF("s", "C1"), U1("z")>>),
                          C1 |-> Class(DefaultOpts, <<U1("t"), x>>)], {0, 1, 2}, 6, {0, 1}) : x \in RootFields}
              \cup {DeclP([C0 |-> Class(DefaultOpts, <<U1("w"), OptF("s", RefF("e", "C1"), SzField("w")), U1("z")>>),
                           C1 |-> Class(DefaultOpts, <<U1("h"), RefF("s", "C2")>>),
                           C2 |-> Class(DefaultOpts, <<U1("t"), x>>)], {0, 1, 2}, 6, {0}) :
                      x \in {DataF("d", Lam(ERoot("w"))), OptF("o", DataF("e", Lam(ERoot("w"))), SzField("t"))}}
\* callables that SERIALISE: the position / size / count of a field is computed from len(pkt.h.pack()) - while parsing and,
\* for positions, while the enclosing packet is itself being serialised (pack() is re-entered: the inner call must work
\* on a buffer of its own), flat, one level down, and after bytes have already been written
ReentHdr == Class(DefaultOpts, <<U1("n"), DataF("v", SzField("n"))>>)
U_C01_Reent(zz) ==
    {DeclP([C0 |-> Class(DefaultOpts, <<U1("w"), RefF("h", "C1"), x, U1("z")>>), C1 |-> ReentHdr], {0, 1, 2}, 6, {0, 1}) :
        x \in {MvField(DataF("d", SzConst(1)), [kind |-> "at", arg |-> Lam(EBin("add", EPackLen(EF("h")), EC(2))), ref |-> "innermost-pkt"]),
               MvField(U1("d"), [kind |-> "shift", arg |-> Lam(EBin("sub", EPackLen(EF("h")), EC(1))), ref |-> "current-offset"]),
               MvField(U1("d"), [kind |-> "aligned", arg |-> Lam(EBin("add", EPackLen(EF("h")), EC(1))), ref |-> "innermost-pkt"]),
               DataF("d", Lam(EPackLen(EF("h")))),
               RepCountF("r", U1("e"), Lam(EBin("sub", EPackLen(EF("h")), EC(1))), NoCond, 0)}}
    \cup {DeclP([C0 |-> Class(DefaultOpts, <<U1("w"), RefF("s", "C2"), U1("z")>>),
                 C2 |-> Class(DefaultOpts, <<U1("t"), RefF("h", "C1"),
                                             MvField(U1("d"), [kind |-> "at", arg |-> Lam(EBin("add", EPackLen(EF("h")), EC(k))), ref |-> "innermost-pkt"])>>),
                 C1 |-> ReentHdr], {0, 1, 2}, 6, {0}) : k \in {1, 2}}
U_C01(zz) == U_C01_Overlap3(0) \cup U_C01_Reent(0) \cup U_C08_Shared(0) \cup U_C08_Sel(0) \cup U_C01_Root(0) \cup U_C01_OverlapEm(0) \cup U_C01_Before(0) \cup U_C10_Back(0) \cup U_C01_Data(0) \cup U_C01_Move(0) \cup U_C01_Ctl(0) \cup U_C01_Overlap(0) \cup U_C07_24(0) \cup U_C07_Ctx(0)

\* the every-change subset: every family is represented, the cross products are thinned
U_C01_Q(zz) == U_C01_Overlap3(0) \cup U_C01_Reent(0) \cup U_C08_Shared(0) \cup U_C08_Sel(0) \cup U_C01_Root(0) \cup U_C01_OverlapEm(0) \cup U_C01_Data(0) \cup U_C01_Overlap(0) \cup U_C07_24(0) \cup U_C01_Before(0) \cup U_C10_Back(0)
           \cup {[d EXCEPT !.alpha = {0, 1, 46}] : d \in U_C10_Class(0) \cup U_C10_Elem(0)}
           \cup {[d EXCEPT !.alpha = {0, 2, 46}, !.starts = {0}] : d \in U_C10_Flat(0)}
           \cup U_C08_Until(0) \cup U_C08_Nest(0)
           \cup {d \in U_C08_Opt(0) : d.prog["C0"].fields[2].when = SzField("t")}

\* no positioning measured from absolute position 0: 'begins' references, the class-wide align
\* option, per-element alignment of repeated fields
NoBegins(d) == \A c \in DOMAIN d.prog : \A i \in 1..Len(d.prog[c].fields) :
                  LET f == d.prog[c].fields[i] IN
                  ~UsesBegins(f.mv) /\ d.prog[c].opts.align = 0 /\ (f.k = "Rep" => f.aligned = 0)
NoRawCallable0(d) == \A c \in DOMAIN d.prog : \A i \in 1..Len(d.prog[c].fields) :
                  LET f == d.prog[c].fields[i] IN ~(f.k = "Data" /\ f.size \in {Lam(EBin("sub", ERest, EC(1))), PadLam})
NoRawCallable(d) == NoRawCallable0(d)
\* fields that consume nothing at the very end of the input: a placed placeholder, an empty byte string placed with at(),
\* a counted sequence of empty elements
U_C14_End(zz) ==
    {\* a marker that overlaps itself (aa in aaa), first in the packet: what precedes the start offset may end in a piece of it
     DeclP([C0 |-> Class(DefaultOpts, <<DataF("d", SzMarker(<<97, 97>>, FALSE, TRUE)), U1("post")>>)], {97, 1}, 5, {0, 1}),
     DeclP([C0 |-> Class(DefaultOpts, <<DataF("d", SzMarker(<<97, 97>>, TRUE, TRUE)), U1("post")>>)], {97, 1}, 5, {0}),
     \* bit runs of one, two and three bytes (through every way the input can be handed over)
     DeclP([C0 |-> Class(DefaultOpts, <<BitsF("h", 3), BitsF("l", 5), U1("m"), BitsF("p", 4), BitsF("q", 12), U1("z")>>)], {1, 165}, 6, {0, 1}),
     DeclP([C0 |-> Class(DefaultOpts, <<U1("a"), BitsF("h", 4), BitsF("m", 12), BitsF("l", 8)>>)], {1, 165}, 5, {0}),
     DeclP([C0 |-> Class(DefaultOpts, <<U1("a"), DataF("d", SzField("a")), MvField(EmF("tail"), [kind |-> "aligned", arg |-> SzConst(4), ref |-> "innermost-pkt"])>>)],
           {0, 1, 2}, 5, {0, 1}),
     DeclP([C0 |-> Class(DefaultOpts, <<U1("a"), MvField(DataF("d", SzConst(0)), [kind |-> "at", arg |-> SzConst(3), ref |-> "innermost-pkt"])>>)], {0, 1}, 4, {0, 2}),
     DeclP([C0 |-> Class(DefaultOpts, <<U1("n"), RepCountF("r", DataF("e", SzConst(0)), SzField("n"), NoCond, 0)>>)], {0, 1, 3}, 3, {0, 1}),
     DeclP([C0 |-> Class(DefaultOpts, <<U1("n"), RepCountF("r", RefF("e", "C1"), SzField("n"), NoCond, 0)>>),
            C1 |-> Class(DefaultOpts, <<EmF("nothing")>>)], {0, 2, 3}, 3, {0, 1})}
\* integers wider than 4 bytes (values that fit a TLC integer: leading 00 / ff), with 0..3 bytes after them up to the end
WideVal(w, e, lo, fill) == IF e = "little" THEN <<lo>> \o RepB(fill, w - 1) ELSE RepB(fill, w - 1) \o <<lo>>
U_Wide(zz) ==
    {WithInputs(DeclP([C0 |-> Class(DefaultOpts, <<IntF("a", w, sg, e), U1("z")>>)], {0, 1}, 0, {0, 1}),
                {WideVal(w, e, lo, fill) \o tail : lo \in {1, 254}, fill \in (IF sg THEN {0, 255} ELSE {0}),
                                                  tail \in {<<>>, <<7>>, <<7, 8>>, <<7, 8, 9>>}}) :
        w \in {5, 6, 7}, sg \in BOOLEAN, e \in {"default", "little"}}
    \cup {WithInputs(DeclP([C0 |-> Class(DefaultOpts, <<U1("n"), RepCountF("r", IntF("e", w, TRUE, "default"), SzField("n"), NoCond, 0)>>)], {0, 1}, 0, {0}),
                     {<<2>> \o WideVal(w, "big", 3, 0) \o WideVal(w, "big", 253, 255) \o tail : tail \in {<<>>, <<7>>, <<7, 8>>}}) : w \in {5, 6}}
U_C14(zz) == {d \in U_C01(0) \cup U_C06(0) \cup U_C14_End(0) \cup U_Long(0) \cup U_Wide(0) : NoBegins(d) /\ NoRawCallable(d)}
IsScan(d) == d.prog["C0"].fields[2].k = "Data" /\ d.prog["C0"].fields[2].size.m \in {"marker", "regex"}
U_C14_Q(zz) == {d \in {e \in U_C01_Data(0) : e.prog["C0"].opts.endian = "none"} \cup U_C01_Before(0) \cup U_C10_Back(0) \cup U_C08_Nest(0) \cup U_C14_End(0) \cup U_Long(0) \cup U_Wide(0)
                   \cup {e \in U_C10_Flat(0) : e.prog["C0"].fields[2].mv.kind = "shift"}
                   \cup {e \in U_C08_Until(0) : e.prog["C0"].fields[2].aligned = 0 /\ e.prog["C0"].fields[2].when = NoCond}
                   \cup {e \in U_C06(0) : Len(e.prog["C0"].fields) = 2 /\ e.prog["C0"].fields[1].k = "Data"}
                   \cup {e \in U_C06(0) : Len(e.prog["C0"].fields) = 3 /\ IsScan(e) /\ e.prog["C0"].fields[2].size.consume
                                        /\ e.prog["C0"].opts.sbl \in (IF e.prog["C0"].fields[2].size.m = "regex" THEN {-1} ELSE {-1, 2})} :
               NoBegins(d) /\ NoRawCallable(d)}

\* universes take a dummy parameter so that TLC does not evaluate all of them at start-up; a profile names the one it explores
PickU(n) ==
    CASE n = "U_Smoke" -> U_Smoke(0)
      [] n = "U_C06" -> U_C06(0)
      [] n = "U_C07_8" -> U_C07_8(0)
      [] n = "U_C07_16" -> U_C07_16(0)
      [] n = "U_C07_24" -> U_C07_24(0)
      [] n = "U_C07_Ctx" -> U_C07_Ctx(0)
      [] n = "U_C07" -> U_C07(0)
      [] n = "U_C08_Count" -> U_C08_Count(0)
      [] n = "U_C08_Until" -> U_C08_Until(0)
      [] n = "U_C08_Opt" -> U_C08_Opt(0)
      [] n = "U_C08_Nest" -> U_C08_Nest(0)
      [] n = "U_C08_Shared" -> U_C08_Shared(0)
      [] n = "U_C08_Desc" -> U_C08_Desc(0)
      [] n = "U_C08_Emb" -> U_C08_Emb(0)
      [] n = "U_C10_Desc" -> U_C10_Desc(0)
      [] n = "U_C10_Kw" -> U_C10_Kw(0)
      [] n = "U_C04_Lone" -> U_C04_Lone(0)
      [] n = "U_C01_Root" -> U_C01_Root(0)
      [] n = "U_C01_Reent" -> U_C01_Reent(0)
      [] n = "U_C08_Sign" -> U_C08_Sign(0)
      [] n = "U_C08_Hash" -> U_C08_Hash(0)
      [] n = "U_Wide" -> U_Wide(0)
      [] n = "U_C08" -> U_C08(0)
      [] n = "U_C10_Flat" -> U_C10_Flat(0)
      [] n = "U_C10_Nest" -> U_C10_Nest(0)
      [] n = "U_C10_Class" -> U_C10_Class(0)
      [] n = "U_C10_Elem" -> U_C10_Elem(0)
      [] n = "U_C10_Back" -> U_C10_Back(0)
      [] n = "U_C10" -> U_C10(0)
      [] n = "U_C03_Fixed" -> U_C03_Fixed(0)
      [] n = "U_C03_Mixed" -> U_C03_Mixed(0)
      [] n = "U_C03" -> U_C03(0)
      [] n = "U_C03_Q" -> U_C03_Q(0)
      [] n = "U_C12" -> U_C12(0)
      [] n = "U_C01_Data" -> U_C01_Data(0)
      [] n = "U_C01_Move" -> U_C01_Move(0)
      [] n = "U_C01_Ctl" -> U_C01_Ctl(0)
      [] n = "U_C01_Overlap" -> U_C01_Overlap(0)
      [] n = "U_C01_Before" -> U_C01_Before(0)
      [] n = "U_C01" -> U_C01(0)
      [] n = "U_C01_Q" -> U_C01_Q(0)
      [] n = "U_C14_End" -> U_C14_End(0)
      [] n = "U_Long" -> U_Long(0)
      [] n = "U_LongC01" -> U_LongSeq(0)
      [] n = "U_LongC06" -> U_LongRegex(0) \cup U_LongMarker(0) \cup U_LongEnd(0)
      [] n = "U_C03_More" -> U_C03_More(0)
      [] n = "U_LongC10" -> U_LongAligned(0) \cup U_LongGap(0)
      [] n = "U_LongC12" -> U_LongCollide(0) \cup U_LongAligned(0)
      [] n = "U_LongSeq" -> U_LongSeq(0)
      [] n = "U_LongAligned" -> U_LongAligned(0)
      [] n = "U_LongRegex" -> U_LongRegex(0)
      [] n = "U_LongCollide" -> U_LongCollide(0)
      [] n = "U_LongMarker" -> U_LongMarker(0)
      [] n = "U_C14" -> U_C14(0)
      [] n = "U_C14_Q" -> U_C14_Q(0)
      [] n = "U_C01_Overlap3" -> U_C01_Overlap3(0)
=============================================================================
