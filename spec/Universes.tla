----------------------------- MODULE Universes -----------------------------
(***************************************************************************)
(* Bounded universes of declarations ("for all packet declarations") and    *)
(* the inputs explored with each.  A universe is a set of records           *)
(*   [prog, root, alpha, maxlen, starts]                                    *)
(* alpha = byte alphabet for the exhaustive inputs of this declaration,     *)
(* maxlen = all strings over alpha up to this length, starts = start        *)
(* offsets (the bytes before the start offset are 0xEE filler).             *)
(***************************************************************************)
EXTENDS Expr

Strings(alpha, maxlen) == UNION {[1..k -> alpha] : k \in 0..maxlen}

InputsOf(d) == Strings(d.alpha, d.maxlen)
StartsOf(d) == d.starts
PrefixOf(d, s) == [i \in 1..s |-> 238]

Decl1(fields, alpha, maxlen) ==
    [prog |-> [C0 |-> Class(DefaultOpts, fields)], root |-> "C0", alpha |-> alpha, maxlen |-> maxlen, starts |-> {0}]
DeclP(prog, alpha, maxlen, starts) ==
    [prog |-> prog, root |-> "C0", alpha |-> alpha, maxlen |-> maxlen, starts |-> starts]

Sub1 == Class(DefaultOpts, <<IntF("x", 1, FALSE, "default"), IntF("y", 1, FALSE, "default")>>)

U_Smoke == {
    Decl1(<<IntF("a", 1, FALSE, "default"), IntF("b", 2, TRUE, "little")>>, {0, 1, 255}, 4),
    Decl1(<<IntF("a", 3, TRUE, "default")>>, {0, 128, 255}, 4),
    Decl1(<<IntF("n", 1, FALSE, "default"), DataF("d", SzField("n")), IntF("z", 1, FALSE, "default")>>, {0, 1, 2, 65}, 4),
    Decl1(<<DataF("d", SzMarker(<<0>>, FALSE, TRUE)), IntF("z", 1, FALSE, "default")>>, {0, 65}, 4),
    Decl1(<<DataF("d", SzRegex("Xplus", TRUE, TRUE)), DataF("e", SzRegex("EOS", FALSE, TRUE))>>, {88, 65}, 4),
    Decl1(<<BitsF("h", 3), BitsF("l", 5), BitsF("p", 12), BitsF("q", 4)>>, {0, 165, 255}, 4),
    Decl1(<<IntF("n", 1, FALSE, "default"),
            RepCountF("r", IntF("e", 1, FALSE, "default"), SzField("n"), NoCond, 0),
            EmF("tail")>>, {0, 1, 2}, 4),
    Decl1(<<IntF("t", 1, FALSE, "default"),
            OptF("o", DataF("e", SzConst(2)), SzExpr(EBin("eq", EF("t"), EC(1)), "deferred"))>>, {0, 1, 65}, 4),
    DeclP([C0 |-> Class(DefaultOpts, <<IntF("a", 1, FALSE, "default"), RefF("s", "C1"),
                                       WithMv(IntF("b", 1, FALSE, "default"), "at", SzConst(4), "innermost-pkt")>>),
           C1 |-> Sub1], {0, 1, 65}, 5, {0, 1}),
    DeclP([C0 |-> Class(DefaultOpts, <<RepUntilF("r", RefF("e", "C1"),
                                          SzExpr(EBin("eq", EAttr(EIdx(EF("r"), EC(-1)), "y"), EC(0)), "lambda"), NoCond, 2)>>),
           C1 |-> Sub1], {0, 1}, 6, {0}),
    DeclP([C0 |-> Class(DefaultOpts, <<IntF("t", 1, FALSE, "default"),
                                       RefSelF("v", EF("t"), <<[key |-> 1, alt |-> IntF("", 2, FALSE, "default")],
                                                               [key |-> 2, alt |-> RefF("", "C1")]>>, "chooses", IntV(0))>>),
           C1 |-> Sub1], {0, 1, 2}, 4, {0})
}
=============================================================================
