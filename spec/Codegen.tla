------------------------------ MODULE Codegen ------------------------------
(***************************************************************************)
(* What the code generator (bisturi/codegen.py) does to the described       *)
(* field list: consecutive fixed-size fields that have a struct code and    *)
(* the same byte order become ONE block (one slice + one StructUnpack, one  *)
(* StructPack + one append) when `vectorize` is on, singleton blocks        *)
(* otherwise; every other field goes through the field list like the        *)
(* generic loop.  Observable difference: which field a failure names and    *)
(* the offset it reports (the block's name and start).                      *)
(***************************************************************************)
EXTENDS Packet

IsFixedF(f) == f.k = "Int" \/ (f.k = "Data" /\ f.size.m = "const")
StructF(f) == (f.k = "Int" /\ f.n \in {1, 2, 4, 8}) \/ (f.k = "Data" /\ f.size.m = "const")
FSize(f) == IF f.k = "Int" THEN f.n ELSE f.size.v
BigOf(f, opts) == IF f.k = "Int" THEN IsBig(f, opts) ELSE TRUE

\* first / last index of the block that contains field i
RECURSIVE BlockStart(_, _, _, _)
BlockStart(fs, opts, i, vec) ==
    IF ~vec \/ ~StructF(fs[i]) \/ i = 1 THEN i
    ELSE IF StructF(fs[i - 1]) /\ BigOf(fs[i - 1], opts) = BigOf(fs[i], opts) THEN BlockStart(fs, opts, i - 1, vec) ELSE i
RECURSIVE BlockEnd(_, _, _, _)
BlockEnd(fs, opts, i, vec) ==
    IF ~vec \/ ~StructF(fs[i]) \/ i = Len(fs) THEN i
    ELSE IF StructF(fs[i + 1]) /\ BigOf(fs[i + 1], opts) = BigOf(fs[i], opts) THEN BlockEnd(fs, opts, i + 1, vec) ELSE i

BlockName(fs, a, b) == IF a = b THEN ListedName(fs[a])
                       ELSE "between '" \o ListedName(fs[a]) \o "' and '" \o ListedName(fs[b]) \o "'"
RECURSIVE SizeSum(_, _, _)
SizeSum(fs, a, b) == IF a > b THEN 0 ELSE FSize(fs[a]) + SizeSum(fs, a + 1, b)

\* one entry of the error stack as generated code reports it
GenEntry(dp, e, vec) ==
    LET fs == dp[e.cls].fields
        S == {i \in 1..Len(fs) : ListedName(fs[i]) = e.name} IN
    IF S = {} THEN e
    ELSE LET i == CHOOSE x \in S : TRUE IN
         IF ~StructF(fs[i]) THEN e
         ELSE LET a == BlockStart(fs, dp[e.cls].opts, i, vec)
                  b == BlockEnd(fs, dp[e.cls].opts, i, vec)
              IN [off |-> e.off - SizeSum(fs, a, i - 1), name |-> BlockName(fs, a, b), cls |-> e.cls]

\* hook: the innermost entry comes from a failing descriptor hook (it names the described field itself, not a block)
GenErr(dp, err, vec, hook) == [k \in 1..Len(err) |-> IF k = 1 /\ hook THEN err[k] ELSE GenEntry(dp, err[k], vec)]
\* a failing pack: a block serialises all its fields with ONE StructPack before anything is appended, so when a member
\* other than the first is at fault the position every enclosing entry reports is still the start of the block
GenErrP(dp, err, vec, hook) ==
    IF Len(err) = 0 \/ hook THEN GenErr(dp, err, vec, hook)
    ELSE LET delta == err[1].off - GenEntry(dp, err[1], vec).off IN
         [k \in 1..Len(err) |-> IF k = 1 THEN GenEntry(dp, err[1], vec) ELSE [err[k] EXCEPT !.off = @ - delta]]
=============================================================================
