--------------------------- MODULE Trace_IntCodec ---------------------------
(***************************************************************************)
(* code -> spec for C05: recorded decodes / encodes of the real Int field   *)
(* (random widths, patterns and values beyond the exhaustive sets) are      *)
(* checked against IntCodec: records {cfg, bs, dec, val, enc_ok, enc_bs}.   *)
(***************************************************************************)
EXTENDS IntCodec, Json, IOUtils

Traces == JsonDeserialize(IOEnv.TRACE_FILE)
VARIABLES tid
Init == tid \in 1..Len(Traces)
Next == UNCHANGED tid
Spec == Init /\ [][Next]_tid
T == Traces[tid]
Big == EffBig(T.cfg.endian, T.cfg.cls)
F(name, ok) == IF ok THEN {} ELSE {name}
Failed ==
    F("C05_Decode", T.dec = Decode(T.bs, T.cfg.signed, Big)) \cup
    F("C05_EncodeOutcome", T.enc_ok = Encode(T.val, T.cfg.n, T.cfg.signed, Big).ok) \cup
    F("C05_EncodeBytes", T.enc_ok => T.enc_bs = Encode(T.val, T.cfg.n, T.cfg.signed, Big).bs)
Report == PrintT(<<"RES", tid, SetToSeq(Failed)>>)
=============================================================================
