SPECIFICATION Spec
INVARIANT Report
