--------------------------- MODULE MC_CodeCacheH ---------------------------
(***************************************************************************)
(* CodeCache with a history variable: every complete behaviour (all         *)
(* processes done or crashed) is exported - the schedule (action, process)  *)
(* with the abstract file-system state after each action - so that it can   *)
(* be forced, action by action, on real processes.  Used with -simulate.    *)
(***************************************************************************)
EXTENDS CodeCache, Json

MC_Procs == {"p1", "p2"}
MC_Procs3 == {"p1", "p2", "p3"}
MC_Decls == {"A", "B", "Bp"}
MC_Decls4 == {"A", "B", "Bp", "Ao"}          \* Ao: the fields of A under other code-generation options
MC_Order == [p1 |-> 1, p2 |-> 2, p3 |-> 3]
MC_SizeOf == [A |-> 1, B |-> 2, Bp |-> 2, Ao |-> 3]
MC_AllShapes == {"complete", "empty", "nocookie", "cookie_nofn", "broken"}
MC_CompleteOnly == {"complete"}

VARIABLES hist, init0
hvars == <<file, pyc, clock, proc, crashes, hist, init0>>

FS == [exists |-> file'.exists, owner |-> file'.owner, shape |-> file'.shape, pyc |-> pyc'.exists, pycowner |-> pyc'.owner]
Rec(a, p) == hist' = Append(hist, [a |-> a, p |-> p, fs |-> FS]) /\ init0' = init0

InitH == Init /\ hist = <<>> /\ init0 = [file |-> file, pyc |-> pyc, decls |-> [p \in Procs |-> proc[p].decl]]

NextH == \/ (Tick /\ Rec("Tick", "-"))
         \/ \E p \in Procs :
               \/ (Exists(p) /\ Rec("Exists", p))
               \/ (Load1(p) /\ Rec("Load1", p))
               \/ (RmPyc(p) /\ Rec("RmPyc", p))
               \/ (Mkdirs(p) /\ Rec("Mkdirs", p))
               \/ (Open(p) /\ Rec("Open", p))
               \/ (\E k \in 1..4 : Write(p, k) /\ Rec("Write", p))
               \/ (Close(p) /\ Rec("Close", p))
               \/ (Replace(p) /\ Rec("Replace", p))
               \/ (Load2(p) /\ Rec("Load2", p))
               \/ (Fallback(p) /\ Rec("Fallback", p))
               \/ (Install(p) /\ Rec("Install", p))
               \/ (Crash(p) /\ Rec("Crash", p))
SpecH == InitH /\ [][NextH]_hvars

AllEnded == \A p \in Procs : proc[p].pc \in {"done", "crashed"}
Emit == AllEnded => PrintT(<<"EMIT", ToJson([init |-> init0, sched |-> hist,
                                             outcome |-> [p \in Procs |-> IF proc[p].pc = "crashed" THEN "crashed" ELSE proc[p].outcome]])>>)
=============================================================================
