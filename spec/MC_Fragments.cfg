SPECIFICATION Spec
CONSTANTS
  MaxOps = 4
  MaxPos = 5
  MaxLen = 2
  Alphabet = {65, 66}
  KeepHist = FALSE
  AsIs = TRUE
INVARIANT Inv_C11_RaiseExact
INVARIANT Inv_C11_Cursor
INVARIANT Inv_C11_Mem
INVARIANT Inv_C11_ToBytes
INVARIANT Inv_Struct
PROPERTY Prop_C11_NoLoss
PROPERTY Prop_C11_RaiseNoEffect
