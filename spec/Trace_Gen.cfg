SPECIFICATION Spec
INVARIANT Report
