------------------------------- MODULE Decl -------------------------------
(***************************************************************************)
(* Abstract syntax of bisturi's declaration language and the Describe step  *)
(* (Field._describe_yourself + PacketClassBuilder).                         *)
(*                                                                          *)
(* A program  prog  maps class names to  [opts, fields].                    *)
(*   opts   = [endian : "big"|"little"|"none", align : 0|n, sbl : -1|0|n]   *)
(*            (align 0 = option absent; sbl -1 = search_buffer_length       *)
(*             absent, 0 = given as 0 which also means unbounded)           *)
(*   fields = sequence of field records, tagged by k:                       *)
(*     Int   [name, n, signed, endian, dflt, mv, desc]                      *)
(*     Data  [name, size, dflt, mv]      size tagged by m, see below        *)
(*     Bits  [name, w, dflt, mv]                                            *)
(*     Em    [name, mv]                                                     *)
(*     Ref   [name, cls, over, mv]       over = keyword overrides of the    *)
(*                                       prototype instance, seq of [n, v]  *)
(*     RefSel[name, key, alts, form, dflt, mv]                              *)
(*     Rep   [name, elem, count|until, when, aligned, dflt, mv]             *)
(*     Opt   [name, elem, when, dflt, mv]                                   *)
(*   size:  [m |-> "const", v] | [m |-> "field", f] | [m |-> "expr", e, form]*)
(*          | [m |-> "marker", b, incl, consume] | [m |-> "regex", r, incl, consume]*)
(*   mv:    [kind |-> "none"] | [kind |-> "at"|"shift"|"aligned", arg, ref] *)
(*          arg = [m |-> "const", v] | [m |-> "field", f] | [m |-> "expr", e, form |-> "lambda"]*)
(*   cond / count:  [m |-> "none"] | [m |-> "const", v] | [m |-> "field", f]*)
(*          | [m |-> "expr", e, form]      form = "deferred" | "lambda"     *)
(*   desc:  [kind |-> "none"] | [kind |-> "autolen", of] | [kind |-> "auto", e]*)
(*          | [kind |-> "verify"|"check", e] | [kind |-> "bounded", of, limit]  *)
(* The same records, printed by ToJson, are what /verif/bind/declgen.py     *)
(* renders to Python source.                                                *)
(***************************************************************************)
EXTENDS Bytes, TLC

NoMv   == [kind |-> "none"]
NoDesc == [kind |-> "none"]
NoCond == [m |-> "none"]
DefaultOpts == [endian |-> "none", align |-> 0, sbl |-> -1]

\* ---- constructors (used by the universes)
IntF(name, n, signed, endian) ==
    [k |-> "Int", name |-> name, n |-> n, signed |-> signed, endian |-> endian,
     dflt |-> 0, mv |-> NoMv, desc |-> NoDesc]
DataF(name, size) == [k |-> "Data", name |-> name, size |-> size, dflt |-> <<>>, mv |-> NoMv]
BitsF(name, w) == [k |-> "Bits", name |-> name, w |-> w, dflt |-> 0, mv |-> NoMv]
EmF(name) == [k |-> "Em", name |-> name, mv |-> NoMv]
RefF(name, cls) == [k |-> "Ref", name |-> name, cls |-> cls, over |-> <<>>, mv |-> NoMv]
\* Ref(Sub(over), embed=True): the fields of Sub become fields of the embedding class (the n records that follow this
\* one in the field list ARE those fields: the very field objects of Sub, with Sub's declared defaults); the reference
\* itself is neither parsed nor serialised and holds no value of its own
EmbF(name, cls, over, n) == [k |-> "Emb", name |-> name, cls |-> cls, over |-> over, n |-> n, mv |-> NoMv]
Embedded(name, cls, over, subfields) == <<EmbF(name, cls, over, Len(subfields))>> \o subfields
RefSelF(name, key, alts, form, dflt) ==
    [k |-> "RefSel", name |-> name, key |-> key, alts |-> alts, form |-> form, dflt |-> dflt, mv |-> NoMv]
RefSelSharedF(name, key, alts, table, dflt) ==     \* the option table object is shared by several fields
    [k |-> "RefSel", name |-> name, key |-> key, alts |-> alts, form |-> "shared", table |-> table,
     dflt |-> dflt, mv |-> NoMv]
RepCountF(name, elem, count, when, aligned) ==
    [k |-> "Rep", name |-> name, elem |-> elem, count |-> count, until |-> NoCond,
     when |-> when, aligned |-> aligned, dflt |-> <<>>, mv |-> NoMv]
RepUntilF(name, elem, until, when, aligned) ==
    [k |-> "Rep", name |-> name, elem |-> elem, count |-> NoCond, until |-> until,
     when |-> when, aligned |-> aligned, dflt |-> <<>>, mv |-> NoMv]
OptF(name, elem, when) ==
    [k |-> "Opt", name |-> name, elem |-> elem, when |-> when, dflt |-> [t |-> "none"], mv |-> NoMv]

SzConst(v) == [m |-> "const", v |-> v]
SzField(f) == [m |-> "field", f |-> f]
SzExpr(e, form) == [m |-> "expr", e |-> e, form |-> form]
SzMarker(b, incl, consume) == [m |-> "marker", b |-> b, incl |-> incl, consume |-> consume]
SzRegex(r, incl, consume) == [m |-> "regex", r |-> r, incl |-> incl, consume |-> consume]

WithMv(f, kind, arg, ref) == [f EXCEPT !.mv = [kind |-> kind, arg |-> arg, ref |-> ref]]
WithDesc(f, d) == [f EXCEPT !.desc = d]
Class(opts, fields) == [opts |-> opts, fields |-> fields]

\* ---- expressions (trees); evaluated by Expr.tla
EF(n) == [e |-> "f", n |-> n]
EC(v) == [e |-> "c", v |-> v]
EBin(op, l, r) == [e |-> "bin", op |-> op, l |-> l, r |-> r]
EUn(op, a) == [e |-> "un", op |-> op, a |-> a]
EIdx(a, i) == [e |-> "idx", a |-> a, i |-> i]
EAttr(a, n) == [e |-> "attr", a |-> a, n |-> n]
ERest == [e |-> "rest"]
EOff == [e |-> "off"]                       \* keyword `offset` of a callable: the position at which the field it sizes begins
EIPos == [e |-> "ipos"]                     \* keyword `innermost-pkt-pos` of a callable: where the innermost packet starts
ERoot(n) == [e |-> "root", n |-> n]        \* field n of the packet that started the operation (keyword `root` of a callable)
\* len(<a>.pack()) inside a callable: the callable itself serialises a (nested) packet, possibly WHILE the enclosing
\* packet is being serialised (pack() must be re-entrant)
EPackLen(a) == [e |-> "packlen", a |-> a]
EChoose(key, alts) == [e |-> "choose", key |-> key, alts |-> alts]

\* ---- the Describe step: the list the pack/unpack loops iterate
MoveName(fname) == "_shift_to_" \o fname

DescribeField(f, opts) ==
    LET mv == IF f.mv.kind = "none" /\ opts.align > 0
              THEN [kind |-> "aligned", arg |-> [m |-> "const", v |-> opts.align], ref |-> "begins"]
              ELSE f.mv
    IN IF mv.kind = "none" THEN <<f>>
       ELSE <<[k |-> "Move", name |-> MoveName(f.name), mv |-> mv], f>>

RECURSIVE DescribeSeq(_, _, _)
DescribeSeq(fs, i, opts) ==
    IF i > Len(fs) THEN <<>> ELSE DescribeField(fs[i], opts) \o DescribeSeq(fs, i + 1, opts)

Described(prog, cls) == DescribeSeq(prog[cls].fields, 1, prog[cls].opts)

\* the whole program, described once (kept in a variable by the MC modules)
DescribeProg(prog) == [c \in DOMAIN prog |-> [opts |-> prog[c].opts, fields |-> Described(prog, c)]]

\* ---- bit runs on the described list (Bits._compile)
IsBits(fs, i) == i >= 1 /\ i <= Len(fs) /\ fs[i].k = "Bits"
BitsFirst(fs, i) == ~IsBits(fs, i - 1)
BitsLast(fs, i) == ~IsBits(fs, i + 1)
RECURSIVE RunStart(_, _)
RunStart(fs, i) == IF BitsFirst(fs, i) THEN i ELSE RunStart(fs, i - 1)
RECURSIVE RunEnd(_, _)
RunEnd(fs, i) == IF BitsLast(fs, i) THEN i ELSE RunEnd(fs, i + 1)
RECURSIVE SumW(_, _, _)
SumW(fs, a, b) == IF a > b THEN 0 ELSE fs[a].w + SumW(fs, a + 1, b)
RunBits(fs, i) == SumW(fs, RunStart(fs, i), RunEnd(fs, i))
\* shift of member i inside its run (bits to its right)
ShiftOf(fs, i) == SumW(fs, i + 1, RunEnd(fs, i))

\* class definition succeeds? (ByteBoundaryError otherwise)
BitsWellFormed(dfs) == \A i \in 1..Len(dfs) : dfs[i].k = "Bits" => RunBits(dfs, i) % 8 = 0
ClassDefinable(prog, cls) == BitsWellFormed(Described(prog, cls))

\* effective byte order of an Int under class options
BigEndian(f, opts) ==
    LET e == IF f.endian = "default" THEN (IF opts.endian = "none" THEN "big" ELSE opts.endian) ELSE f.endian
    IN e \in {"big", "network"}     \* "local" is resolved by the harness constant HostBig
=============================================================================
