------------------------------- MODULE Expr -------------------------------
(***************************************************************************)
(* Field values (tagged records) and the eager evaluation of expression     *)
(* trees over the values of a partially parsed packet: the meaning of the   *)
(* same Python expression.  Used for sizes, counts, conditions, selectors   *)
(* and Move targets, whether the user wrote them as deferred field          *)
(* expressions or as callables.                                             *)
(*                                                                          *)
(* Values:  [t |-> "int", v]  [t |-> "bytes", v]  [t |-> "list", v]         *)
(*          [t |-> "pkt", cls, vals]  [t |-> "none"]                        *)
(* vals: sequence of [n |-> field name, v |-> value].                       *)
(* An evaluation returns [ok, v]; ok = FALSE stands for "Python raises".    *)
(***************************************************************************)
EXTENDS Decl

IntV(v) == [t |-> "int", i |-> v]
BytesV(b) == [t |-> "bytes", b |-> b]
ListV(s) == [t |-> "list", l |-> s]
PktV(cls, vals) == [t |-> "pkt", cls |-> cls, vals |-> vals]
NoneV == [t |-> "none"]
\* payload of an int / bytes / list value.  The payload field is named differently per kind on purpose:
\* TLC compares record fields in the order its string table happens to have, so two values of different
\* kinds must already differ in their field NAMES or comparing them can be an evaluation error.
PL(x) == CASE x.t = "int" -> x.i [] x.t = "bytes" -> x.b [] OTHER -> x.l
BoolV(b) == IntV(IF b THEN 1 ELSE 0)

Ok(v) == [ok |-> TRUE, v |-> v]
Raise == [ok |-> FALSE, v |-> NoneV]

HasVal(vals, n) == \E i \in 1..Len(vals) : vals[i].n = n
Lookup(vals, n) == vals[CHOOSE i \in 1..Len(vals) : vals[i].n = n].v
SetVal(vals, n, v) ==
    IF HasVal(vals, n) THEN [i \in 1..Len(vals) |-> IF vals[i].n = n THEN [n |-> n, v |-> v] ELSE vals[i]]
    ELSE Append(vals, [n |-> n, v |-> v])

Truth(v) == CASE v.t = "int" -> v.i # 0
              [] v.t = "bytes" -> v.b # <<>>
              [] v.t = "list" -> v.l # <<>>
              [] v.t = "none" -> FALSE
              [] OTHER -> TRUE

\* Python floor division / modulo for any non-zero divisor
FloorDiv(a, b) == IF b > 0 THEN a \div b ELSE (0 - a) \div (0 - b)
PyMod(a, b) == IF b > 0 THEN a % b ELSE 0 - ((0 - a) % (0 - b))

IntBin(op, a, b) ==
    CASE op = "add" -> Ok(IntV(a + b))
      [] op = "sub" -> Ok(IntV(a - b))
      [] op = "mul" -> Ok(IntV(a * b))
      [] op = "floordiv" -> IF b = 0 THEN Raise ELSE Ok(IntV(FloorDiv(a, b)))
      [] op = "mod" -> IF b = 0 THEN Raise ELSE Ok(IntV(PyMod(a, b)))
      [] op = "eq" -> Ok(BoolV(a = b))
      [] op = "ne" -> Ok(BoolV(a # b))
      [] op = "lt" -> Ok(BoolV(a < b))
      [] op = "le" -> Ok(BoolV(a <= b))
      [] op = "gt" -> Ok(BoolV(a > b))
      [] op = "ge" -> Ok(BoolV(a >= b))
      [] op = "and" -> Ok(IntV(BitAnd(a, b)))
      [] op = "or" -> Ok(IntV(BitOr(a, b)))
      [] op = "xor" -> Ok(IntV(BitXor(a, b)))
      [] op = "lshift" -> IF b < 0 THEN Raise ELSE Ok(IntV(a * Pow(2, b)))
      [] op = "rshift" -> IF b < 0 THEN Raise ELSE Ok(IntV(a \div Pow(2, b)))
      [] OTHER -> Raise

\* x[i] with Python index semantics on a sequence of length n
PyItem(s, i) ==
    LET n == Len(s) j == IF i < 0 THEN i + n ELSE i
    IN IF j < 0 \/ j >= n THEN [ok |-> FALSE, at |-> 0] ELSE [ok |-> TRUE, at |-> j + 1]

\* env = [vals, raw, cur, root]   (raw/cur only for callables that inspect the buffer; root = the values of the
\* packet that started the operation)
RECURSIVE Eval(_, _)
Eval(e, env) ==
    CASE e.e = "c" -> Ok(IntV(e.v))
      [] e.e = "f" -> IF HasVal(env.vals, e.n) THEN Ok(Lookup(env.vals, e.n)) ELSE Raise
      [] e.e = "rest" -> Ok(IntV(Len(env.raw) - env.cur))
      [] e.e = "off" -> Ok(IntV(env.cur))
      [] e.e = "ipos" -> Ok(IntV(env.ipos))
      [] e.e = "root" -> IF HasVal(env.root, e.n) THEN Ok(Lookup(env.root, e.n)) ELSE Raise
      [] e.e = "un" ->
            LET a == Eval(e.a, env) IN
            IF ~a.ok THEN Raise
            ELSE CASE e.op = "neg" -> IF a.v.t = "int" THEN Ok(IntV(0 - a.v.i)) ELSE Raise
                   [] e.op = "inv" -> IF a.v.t = "int" THEN Ok(IntV((0 - a.v.i) - 1)) ELSE Raise
                   [] e.op = "truth" -> Ok(BoolV(Truth(a.v)))
                   [] e.op = "not" -> Ok(BoolV(~Truth(a.v)))
                   [] e.op = "len" -> IF a.v.t \in {"bytes", "list"} THEN Ok(IntV(Len(PL(a.v)))) ELSE Raise
                   [] OTHER -> Raise
      [] e.e = "bin" ->
            LET a == Eval(e.l, env) b == Eval(e.r, env) IN
            IF ~a.ok \/ ~b.ok THEN Raise
            ELSE IF a.v.t = "int" /\ b.v.t = "int" THEN IntBin(e.op, a.v.i, b.v.i)
            ELSE IF e.op = "eq" THEN Ok(BoolV(a.v = b.v))
            ELSE IF e.op = "ne" THEN Ok(BoolV(a.v # b.v))
            ELSE Raise
      [] e.e = "idx" ->
            LET a == Eval(e.a, env) i == Eval(e.i, env) IN
            IF ~a.ok \/ ~i.ok \/ i.v.t # "int" \/ a.v.t \notin {"bytes", "list"} THEN Raise
            ELSE LET p == PyItem(PL(a.v), i.v.i) IN
                 IF ~p.ok THEN Raise
                 ELSE IF a.v.t = "bytes" THEN Ok(IntV(a.v.b[p.at])) ELSE Ok(a.v.l[p.at])
      [] e.e = "attr" ->
            LET a == Eval(e.a, env) IN
            IF ~a.ok \/ a.v.t # "pkt" THEN Raise
            ELSE IF HasVal(a.v.vals, e.n) THEN Ok(Lookup(a.v.vals, e.n)) ELSE Raise
      [] e.e = "packlen" ->     \* env.plen: packet value -> outcome of ITS OWN pack() (built lazily by the machines, Packet!PLen)
            LET a == Eval(e.a, env) IN
            IF ~a.ok \/ a.v.t # "pkt" THEN Raise
            ELSE IF a.v \in DOMAIN env.plen THEN env.plen[a.v] ELSE Raise
      [] e.e = "choose" ->      \* every alternative is evaluated (as Python evaluates the dict/list display)
            LET key == Eval(e.key, env)
                vs == [i \in 1..Len(e.alts) |-> Eval(e.alts[i].v, env)] IN
            IF ~key.ok \/ \E i \in 1..Len(e.alts) : ~vs[i].ok THEN Raise
            ELSE LET hits == {i \in 1..Len(e.alts) : IntV(e.alts[i].k) = key.v} IN
                 IF hits = {} THEN Raise ELSE vs[CHOOSE i \in hits : TRUE]
      [] OTHER -> Raise

\* a count / size / condition given as const | field | expr
EvalSpec(spec, env) ==
    CASE spec.m = "const" -> Ok(IntV(spec.v))
      [] spec.m = "field" -> IF HasVal(env.vals, spec.f) THEN Ok(Lookup(env.vals, spec.f)) ELSE Raise
      [] spec.m = "expr" -> Eval(spec.e, env)
      [] OTHER -> Raise
=============================================================================
