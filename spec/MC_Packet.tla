----------------------------- MODULE MC_Packet -----------------------------
(***************************************************************************)
(* Driver for every packet-level profile: the declaration, the input and    *)
(* the start offset are chosen in Init; afterwards the unpack machine runs  *)
(* to completion and, if it succeeded, the pack machine runs on the parsed  *)
(* value tree.  Profiles override  Universe / Inputs / Starts  and list the *)
(* invariants of PacketProps they check.                                    *)
(***************************************************************************)
EXTENDS PacketProps, Universes, Json

VARIABLES di, input, start, phase, m, p
vars == <<di, input, start, phase, m, p>>

\* overridden per profile in the .cfg  (U <- U_C06 ...)
U == U_Smoke

USeq == SetToSeq(U)
ASSUME PrintT(<<"UNIV", ToJson(USeq)>>)

D == USeq[di]
DP == DescribeProg(D.prog)

NoPack == [st |-> "none"]

Init ==
    /\ di \in 1..Len(USeq)
    /\ input \in InputsOf(USeq[di])
    /\ start \in StartsOf(USeq[di])
    /\ phase = "unpack"
    /\ m = UInit(USeq[di].root, start)
    /\ p = NoPack

StepUnpack == /\ phase = "unpack" /\ RunningU(m)
              /\ m' = StepU(DP, PrefixOf(D, start) \o input, m)
              /\ UNCHANGED <<di, input, start, phase, p>>
StartPack  == /\ phase = "unpack" /\ m.st = "done"
              /\ phase' = "pack" /\ p' = PInit0(D.root, m.result.vals, m.regs)
              /\ UNCHANGED <<di, input, start, m>>
StepPack   == /\ phase = "pack" /\ RunningP(p)
              /\ p' = StepP(DP, p)
              /\ UNCHANGED <<di, input, start, phase, m>>

Next == StepUnpack \/ StartPack \/ StepPack
Spec == Init /\ [][Next]_vars

Terminal == (phase = "unpack" /\ m.st = "fail") \/ (phase = "pack" /\ ~RunningP(p))

Raw == PrefixOf(D, start) \o input

\* ---- invariants: the operators of PacketProps applied to this run
Inv_Machine == MachineSane(DP, Raw, start, m)
Inv_C04_Exact == C04_Exact(Raw, m)
Inv_C01 == Terminal /\ phase = "pack" => C01_RoundTrip(DP, Raw, start, m, p)
Inv_C12_U == (phase = "unpack" /\ m.st = "fail") => C12_StackShape(DP, m.err)

\* ---- export of every terminal behaviour (spec -> code replay)
Emit == Terminal =>
    PrintT(<<"EMIT", ToJson([d |-> di, raw |-> Raw, start |-> start,
                             u |-> [st |-> m.st, cur |-> m.cur, err |-> m.err, reads |-> m.reads,
                                    evs |-> m.evs, result |-> m.result, regs |-> m.regs],
                             p |-> IF phase = "pack"
                                   THEN [st |-> p.st, out |-> p.out, err |-> p.err, writes |-> p.writes,
                                         evs |-> p.evs, cur |-> p.frag.cur]
                                   ELSE NoPack])>>)
=============================================================================
