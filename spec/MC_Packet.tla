----------------------------- MODULE MC_Packet -----------------------------
(***************************************************************************)
(* Driver for every packet-level profile: the declaration, the input and    *)
(* the start offset are chosen in Init; afterwards the unpack machine runs  *)
(* to completion and, if it succeeded, the pack machine runs on the parsed  *)
(* value tree.  Profiles override  Universe / Inputs / Starts  and list the *)
(* invariants of PacketProps they check.                                    *)
(***************************************************************************)
EXTENDS GenPacket, Universes, Json

CONSTANTS UName, Part, NParts      \* this TLC process explores declarations i with i % NParts = Part

VARIABLES di, dd, dp, input, start, phase, m, p
vars == <<di, dd, dp, input, start, phase, m, p>>

\* overridden per profile in the .cfg  (U <- U_C06 ...)
U == PickU(UName)

USeq == SetToSeq(U)
ASSUME Part = 0 => PrintT(<<"UNIV", ToJson(USeq)>>)

\* the declaration and its described form are carried in the state (chosen once in Init)
D == dd
DP == dp

NoPack == [st |-> "none"]

Init ==
    LET us == USeq IN
    \E i \in {j \in 1..Len(us) : j % NParts = Part} :
        LET d == us[i] IN
        /\ di = i
        /\ dd = d
        /\ dp = DescribeProg(d.prog)
        /\ input \in InputsOf(d)
        /\ start \in StartsOf(d)
        /\ phase = "unpack"
        /\ m = UInit(d.root, start)
        /\ p = NoPack

StepUnpack == /\ phase = "unpack" /\ RunningU(m)
              /\ m' = StepU(DP, PrefixOf(D, start) \o input, m)
              /\ UNCHANGED <<di, dd, dp, input, start, phase, p>>
StartPack  == /\ phase = "unpack" /\ m.st = "done"
              /\ phase' = "pack" /\ p' = PInit0(D.root, m.result.vals, m.regs)
              /\ UNCHANGED <<di, dd, dp, input, start, m>>
StepPack   == /\ phase = "pack" /\ RunningP(p)
              /\ p' = StepP(DP, p)
              /\ UNCHANGED <<di, dd, dp, input, start, phase, m>>

Next == StepUnpack \/ StartPack \/ StepPack
Spec == Init /\ [][Next]_vars

Terminal == (phase = "unpack" /\ m.st = "fail") \/ (phase = "pack" /\ ~RunningP(p))

Raw == PrefixOf(D, start) \o input

\* ---- invariants: the predicates of PacketProps applied to this run
MU == UObsOf(m)
MP == PObsOf(p)
Inv_Machine == MachineSane(Raw, m)
Inv_C04_Exact == C04_Exact(Raw, MU)
Inv_C01_Bytes == Terminal => C01_Bytes(Raw, start, MU, MP)
Inv_C01_Fill == Terminal => C01_Fill(Raw, start, MU, MP)
Inv_C01_Len == Terminal => C01_Len(Raw, start, MU, MP)
Inv_C01_OverlapRaises == Terminal => C01_OverlapRaises(MU, MP)
Inv_C01_RaiseOnlyOnOverlap == Terminal => C01_RaiseOnlyOnOverlap(start, MU, MP)
Inv_C10_Same == Terminal => C10_Same(DP, start, MU, MP)
Inv_C10_Least == Terminal => C10_Least(DP, MU)
Inv_C12_Shape == (m.st = "fail" => C12_Shape(DP, m.err)) /\ (phase = "pack" /\ p.st = "fail" => C12_Shape(DP, p.err))

\* ---- C03 on the model: the block-step machines (GenPacket.tla) refine the generic machines
GU == {[u |-> TRUE, p |-> FALSE, vec |-> v] : v \in BOOLEAN}
GP == {[u |-> FALSE, p |-> TRUE, vec |-> v] : v \in BOOLEAN}
Fuel == 600
Inv_C03_Refine == Terminal =>
    /\ \A g \in GU : C03_RefineU(DP, m, RunUG(DP, Raw, UInit(D.root, start), g, Fuel), g)
    /\ phase = "pack" => \A g \in GP : C03_RefineP(DP, p, RunPG(DP, PInit0(D.root, m.result.vals, m.regs), g, Fuel), g)

\* ---- export of every terminal behaviour (spec -> code replay)
Emit == Terminal =>
    PrintT(<<"EMIT", ToJson([d |-> di, raw |-> Raw, start |-> start,
                             u |-> [st |-> m.st, cur |-> m.cur, err |-> m.err, errv |-> GenErr(DP, m.err, TRUE, m.hookname # ""),
                                    errn |-> GenErr(DP, m.err, FALSE, m.hookname # ""), reads |-> m.reads,
                                    evs |-> m.evs, result |-> m.result, regs |-> m.regs],
                             p |-> IF phase = "pack"
                                   THEN [st |-> p.st, out |-> p.out, err |-> p.err, errv |-> GenErrP(DP, p.err, TRUE, p.hookname # ""),
                                         errn |-> GenErrP(DP, p.err, FALSE, p.hookname # ""), writes |-> p.writes,
                                         evs |-> p.evs, cur |-> p.frag.cur, dev |-> Dev_F5(MU, MP)]
                                   ELSE NoPack])>>)
=============================================================================
