SPECIFICATION Spec
INVARIANT Report
