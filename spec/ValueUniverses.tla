-------------------------- MODULE ValueUniverses --------------------------
(***************************************************************************)
(* Universes for the value-driven profile: records                          *)
(*   [prog, root, kw, depth, mods]                                          *)
(* kw = "full": K ranges over complete assignments from the field domains;  *)
(* kw = "subsets": K ranges over every subset of fields, each overridden    *)
(* by domain values (the rest keeps its declared default);                  *)
(* mods: whether one attribute is re-assigned before a second pack.         *)
(***************************************************************************)
EXTENDS Values, Universes

VDecl(prog, kw, depth, mods) == [prog |-> prog, root |-> "C0", kw |-> kw, depth |-> depth, mods |-> mods, eqtest |-> FALSE]
\* C20: q is built like p and then one field (any, any domain value) is re-assigned; small domains everywhere
EqDecl(prog) == [prog |-> prog, root |-> "C0", kw |-> "small", depth |-> 0, mods |-> TRUE, eqtest |-> TRUE]
V1(fields, kw, mods) == VDecl([C0 |-> Class(DefaultOpts, fields)], kw, 1, mods)

RestrictTo(vals, S) == SelectSeq(vals, LAMBDA e : e.n \in S)
NamesOf(vals) == {vals[i].n : i \in 1..Len(vals)}

DescribedNames(d) == {d.prog[d.root].fields[i].name : i \in {j \in 1..Len(d.prog[d.root].fields) :
                            d.prog[d.root].fields[j].k = "Int" /\ d.prog[d.root].fields[j].desc.kind # "none"}}
FullDom(d) == ValsDom(d.prog, d.prog[d.root].fields, 1, IF d.kw = "small" THEN 0 ELSE 1)
DataNames(d) == {d.prog[d.root].fields[i].name : i \in {j \in 1..Len(d.prog[d.root].fields) : d.prog[d.root].fields[j].k = "Data"}}
BitsNames(d) == {d.prog[d.root].fields[i].name : i \in {j \in 1..Len(d.prog[d.root].fields) : d.prog[d.root].fields[j].k = "Bits"}}
KwargsOf(d) ==
    IF d.kw = "given" THEN d.ks        \* the assignments are named explicitly (long values)
    ELSE IF d.kw = "full" THEN FullDom(d)
    \* ... and assignments in which one bit field holds None: that pack fails half-way through the run
    ELSE IF d.kw = "fullbad" THEN FullDom(d) \cup {SetVal(full, n, NoneV) : full \in FullDom(d), n \in BitsNames(d)}
                                              \cup {SetVal(full, n, ListV(<<IntV(65)>>)) : full \in FullDom(d), n \in DataNames(d)}
    ELSE IF d.kw = "small"      \* also without the described fields: they are then computed
    THEN FullDom(d) \cup {RestrictTo(full, NamesOf(full) \ DescribedNames(d)) : full \in FullDom(d)} \cup {<<>>}
    ELSE UNION {{RestrictTo(full, S) : S \in SUBSET NamesOf(full)} : full \in FullDom(d)}

ModsOf(d) ==
    IF ~d.mods THEN {[n |-> "", v |-> NoneV]}
    ELSE IF d.eqtest
    THEN {[n |-> "", v |-> NoneV]} \cup
         UNION {{[n |-> d.prog[d.root].fields[i].name, v |-> x] : x \in FieldDom(d.prog, d.prog[d.root].fields[i], 0)} :
                   i \in {j \in 1..Len(d.prog[d.root].fields) : d.prog[d.root].fields[j].k \notin {"Em", "Move", "Emb"}}}
    ELSE {[n |-> "", v |-> NoneV]} \cup
         UNION {{[n |-> d.prog[d.root].fields[i].name, v |-> x] : x \in FieldDom(d.prog, d.prog[d.root].fields[i], 1)} :
                   i \in {j \in 1..Len(d.prog[d.root].fields) : d.prog[d.root].fields[j].k = "Bits"}}

WithDflt(f, v) == [f EXCEPT !.dflt = v]
SubD == Class(DefaultOpts, <<WithDflt(U1("x"), 7), IntF("y", 2, TRUE, "little")>>)
SubLenD == Class(DefaultOpts, <<WithDesc(U1("n"), [kind |-> "autolen", of |-> "d"]), DataF("d", SzMarker(<<0>>, FALSE, TRUE))>>)
LenV(n, d) == PktV("C1", <<[n |-> "n", v |-> IntV(n)], [n |-> "d", v |-> BytesV(d)]>>)
SubV(x, y) == PktV("C1", <<[n |-> "x", v |-> IntV(x)], [n |-> "y", v |-> IntV(y)]>>)    \* a complete value of class SubD

UV_Smoke(zz) == {
    V1(<<U1("a"), IntF("b", 2, TRUE, "little")>>, "full", FALSE),
    V1(<<U1("n"), DataF("d", SzField("n")), DataF("m", SzMarker(<<0>>, FALSE, TRUE))>>, "full", FALSE),
    V1(<<BitsF("h", 3), BitsF("l", 5)>>, "full", TRUE),
    VDecl([C0 |-> Class(DefaultOpts, <<U1("t"), RefF("s", "C1"), OptF("o", U1("e"), SzField("t"))>>), C1 |-> SubD], "subsets", 1, FALSE)
}

\* -------------------------------------------------------------------- C02
U_C02(zz) ==
    {V1(<<IntF("a", n, sg, e), U1("z")>>, "full", FALSE) : n \in {1, 2, 3}, sg \in BOOLEAN, e \in {"default", "little"}}
    \cup {V1(<<U1("n"), DataF("d", md), U1("z")>>, "full", FALSE) :
             md \in {SzConst(0), SzConst(2), SzField("n"), Defer(EBin("mul", EF("n"), EC(2))), Lam(EBin("add", EF("n"), EC(1))),
                     SzMarker(<<0>>, FALSE, TRUE), SzMarker(<<0>>, TRUE, TRUE), SzMarker(<<65, 65>>, FALSE, TRUE)}}
    \* two sizes taken from one list by indices whose hashes coincide (-1 and -2)
    \cup {VDecl([C0 |-> Class(DefaultOpts, <<RepCountF("sizes", U1("e"), SzConst(2), NoCond, 0), DataF("d", Defer(EIdx(EF("sizes"), EC(0 - 1)))),
                                             DataF("q", Defer(EIdx(EF("sizes"), EC(0 - 2)))), U1("z")>>)], "full", 1, FALSE)}
    \* a read-to-end body is consistent only in last position
    \cup {V1(<<U1("n"), U1("z"), DataF("d", SzRegex("EOS", FALSE, TRUE))>>, "full", FALSE)}
    \cup {VDecl([C0 |-> Class(DefaultOpts, <<S1("n"), U1("t"), RepCountF("r", e, c, w, 0), U1("z")>>), C1 |-> Sub1], "full", 1, FALSE) :
             e \in {U1("e"), DataF("e", SzConst(1)), RefF("e", "C1")},
             c \in {SzConst(2), SzField("n"), Defer(EBin("sub", EF("n"), EC(1)))}, w \in {NoCond, SzField("t")}}
    \cup {VDecl([C0 |-> Class(DefaultOpts, <<U1("t"), RepUntilF("r", U1("e"), u, NoCond, 0), U1("z")>>)], "full", 0, FALSE) : u \in UntilInt}
    \cup {VDecl([C0 |-> Class(DefaultOpts, <<U1("t"), OptF("o", e, w), U1("z")>>), C1 |-> Sub1], "full", 1, FALSE) :
             e \in {U1("e"), DataF("e", SzConst(2)), RefF("e", "C1")}, w \in {SzField("t"), Defer(EBin("eq", EF("t"), EC(1)))}}
    \cup {VDecl([C0 |-> Class(DefaultOpts, <<U1("t"),
                     RefSelF("v", EF("t"), <<[key |-> 0, alt |-> IntF("", 2, FALSE, "default")], [key |-> 1, alt |-> DataF("", SzConst(1))],
                                             [key |-> 2, alt |-> RefF("", "C1")]>>, fm, IntV(0)), U1("z")>>), C1 |-> Sub1], "full", 1, FALSE) :
             fm \in {"chooses", "lambda"}}
    \* a field selected at run time takes the class defaults (byte order) of the class it is selected in
    \cup {VDecl([C0 |-> Class([DefaultOpts EXCEPT !.endian = "little"], <<U1("t"),
                     RefSelF("v", EF("t"), <<[key |-> 0, alt |-> IntF("", 2, FALSE, "default")], [key |-> 1, alt |-> DataF("", SzConst(1))]>>,
                             fm, IntV(0)), U1("z")>>)], "full", 1, FALSE) : fm \in {"chooses", "lambda"}}
    \cup {VDecl([C0 |-> Class([DefaultOpts EXCEPT !.endian = "little"], <<IntF("a", 2, FALSE, "default"), RefF("s", "C1"), BitsF("h", 4), BitsF("l", 12)>>),
                 C1 |-> Class(DefaultOpts, <<IntF("x", 2, FALSE, "default"), DataF("d", SzMarker(<<0>>, FALSE, TRUE))>>)], "full", 1, FALSE)}

\* long values (named explicitly): a body of 65535 / 65534 bytes in front of a two-byte marker, 520 two-byte little-endian
\* elements, 700 bytes in front of a one-byte marker
VGiven(fields, ks) == V1(fields, "given", FALSE) @@ [ks |-> ks]
KV(n, v) == [n |-> n, v |-> v]
U_C02_Long(zz) ==
    {VGiven(<<U1("a"), DataF("d", SzMarker(<<13, 10>>, FALSE, TRUE)), U1("z")>>,
            {<<KV("a", IntV(7)), KV("d", BytesV(RepB(65, k))), KV("z", IntV(9))>> : k \in {65534, 65535}}),
     VGiven(<<IntF("n", 2, FALSE, "default"), RepCountF("r", IntF("e", 2, FALSE, "little"), SzField("n"), NoCond, 0), U1("z")>>,
            {<<KV("n", IntV(520)), KV("r", ListV([i \in 1..520 |-> IntV(256 + (i % 7))])), KV("z", IntV(9))>>}),
     VGiven(<<U1("a"), DataF("d", SzMarker(<<10>>, FALSE, TRUE)), IntF("z", 2, FALSE, "default")>>,
            {<<KV("a", IntV(7)), KV("d", BytesV(RepB(65, 700))), KV("z", IntV(9))>>})}

\* positioned fields, a later-declared one placed before an earlier one; state kept between two packs
U_C02_Pos(zz) ==
    {V1(<<MvField(IntF("a", 2, FALSE, "default"), [kind |-> "at", arg |-> SzConst(qa), ref |-> "innermost-pkt"]),
          MvField(U1("b"), [kind |-> "at", arg |-> SzConst(qb), ref |-> r]), U1("c")>>, "full", FALSE) :
        qa \in {2, 3}, qb \in {0, 1, 5}, r \in {"innermost-pkt", "begins"}}
    \cup {V1(<<U1("a"), MvField(DataF("d", SzConst(2)), [kind |-> "aligned", arg |-> SzConst(al), ref |-> "begins"]),
               MvField(U1("z"), [kind |-> "shift", arg |-> SzConst(sh), ref |-> "current-offset"]), EmF("tail")>>, "full", FALSE) :
              al \in {2, 4}, sh \in {0, 2}}
    \cup {V1(BitFields(<<4, 4>>) \o <<U1("z")>>, "full", TRUE), V1(BitFields(<<3, 10, 3>>), "full", TRUE)}
    \* a class-wide alignment next to own modifiers whose argument is zero
    \cup {VDecl([C0 |-> Class([DefaultOpts EXCEPT !.align = 2], <<MvField(U1("a"), [kind |-> "at", arg |-> SzConst(4), ref |-> "innermost-pkt"]),
                                                                  MvField(U1("b"), [kind |-> "at", arg |-> SzConst(0), ref |-> "innermost-pkt"]),
                                                                  MvField(U1("c"), [kind |-> "shift", arg |-> SzConst(0), ref |-> "current-offset"]),
                                                                  IntF("d", 2, FALSE, "default")>>)], "full", 1, FALSE)}
    \* per-element alignment of repeated fields, counted and until-terminated
    \cup {VDecl([C0 |-> Class(DefaultOpts, <<U1("t"), RepUntilF("r", U1("e"), u, NoCond, al), U1("z")>>)], "full", 0, FALSE) :
             u \in UntilInt, al \in {2, 3}}
    \cup {VDecl([C0 |-> Class(DefaultOpts, <<U1("n"), RepCountF("r", IntF("e", 3, FALSE, "default"), SzField("n"), NoCond, 2), U1("z")>>)], "full", 0, FALSE)}
    \* the count is a described field given explicitly: the re-parse reads it from the bytes
    \cup {VDecl([C0 |-> Class(DefaultOpts, <<WithDesc(U1("n"), [kind |-> "autolen", of |-> "r"]), RepCountF("r", U1("e"), SzField("n"), NoCond, 0), U1("z")>>)],
                "full", 0, FALSE)}

\* pack side of C03 (every-change subset): fixed runs, a descriptor on a vectorised field, nested packets
U_C03V(zz) == {V1(<<IntF("a", n, sg, e), IntF("b", 2, FALSE, "little"), DataF("d", SzConst(2)), U1("z")>>, "full", FALSE) :
              n \in {1, 2, 3}, sg \in BOOLEAN, e \in {"default", "little"}}
          \* a user's descriptor subclass with its OWN before-pack hook (refuses lengths above its limit), computed and assigned
          \cup {VDecl([C0 |-> Class(DefaultOpts, <<WithDesc(U1("n"), [kind |-> "bounded", of |-> "d", limit |-> 0]), IntF("m", 2, FALSE, "default"),
                                                  DataF("d", SzField("n"))>>)], "small", 1, FALSE)}
          \cup {V1(<<WithDesc(U1("n"), [kind |-> "autolen", of |-> "d"]), IntF("m", 2, FALSE, "default"), DataF("d", SzField("n"))>>, "full", FALSE),
                VDecl([C0 |-> Class([DefaultOpts EXCEPT !.endian = "little"], <<IntF("a", 2, FALSE, "default"), RefF("s", "C1"), BitsF("h", 4), BitsF("l", 12)>>),
                       C1 |-> Class(DefaultOpts, <<IntF("x", 2, FALSE, "default"), DataF("d", SzMarker(<<0>>, FALSE, TRUE))>>)], "full", 1, FALSE)}

RECURSIVE DeepChain(_, _)
DeepChain(n, last) ==
    IF n = 0 THEN PktV("C0", <<[n |-> "t", v |-> IntV(0)], [n |-> "v", v |-> IntV(last)], [n |-> "o", v |-> NoneV]>>)
    ELSE PktV("C0", <<[n |-> "t", v |-> IntV(1)], [n |-> "v", v |-> IntV(1)], [n |-> "o", v |-> DeepChain(n - 1, last)]>>)
\* pack failures (C12): out-of-range and wrongly typed values at every depth, colliding positions, a before-pack hook that fails
\* (AutoLength of an optional field that is absent), top level and nested
U_C12V(zz) ==
    {VDecl([C0 |-> Class(DefaultOpts, <<U1("t"), WithDesc(U1("n"), [kind |-> "autolen", of |-> "o"]), OptF("o", DataF("e", SzConst(1)), SzField("t"))>>)], "subsets", 1, FALSE),
     VDecl([C0 |-> Class(DefaultOpts, <<U1("h"), RefF("s", "C1"), U1("z")>>),
            C1 |-> Class(DefaultOpts, <<U1("t"), WithDesc(U1("n"), [kind |-> "autolen", of |-> "o"]), OptF("o", DataF("e", SzConst(1)), SzField("t"))>>)], "subsets", 1, FALSE),
     VDecl([C0 |-> Class(DefaultOpts, <<IntF("a", 2, TRUE, "default"), RefF("s", "C1"), RepCountF("r", RefF("e", "C1"), SzConst(1), NoCond, 0)>>),
            C1 |-> Class(DefaultOpts, <<IntF("x", 1, FALSE, "default"), IntF("y", 3, TRUE, "little")>>)], "full", 1, FALSE),
     V1(<<U1("a"), MvField(DataF("d", SzConst(2)), [kind |-> "at", arg |-> SzField("a"), ref |-> "innermost-pkt"]), U1("z")>>, "full", FALSE),
     \* three placements: high first, back at the start, then a delimited value that runs into the first one (the failure
     \* names the delimited field and the position where IT begins)
     V1(<<MvField(DataF("f", SzConst(2)), [kind |-> "at", arg |-> SzConst(3), ref |-> "innermost-pkt"]),
          MvField(U1("k"), [kind |-> "at", arg |-> SzConst(0), ref |-> "innermost-pkt"]), DataF("l", SzMarker(<<0>>, FALSE, TRUE))>>, "full", FALSE),
     \* a list where a byte string is expected, for every way of ending the byte string (top level and one level down)
     VDecl([C0 |-> Class(DefaultOpts, <<U1("t"), WithDesc(U1("m"), [kind |-> "check", e |-> EC(0)]), WithDesc(U1("n"), [kind |-> "autolen", of |-> "o"]),
                                        OptF("o", DataF("e", SzConst(1)), SzField("t"))>>)], "subsets", 1, FALSE),
     V1(<<U1("a"), DataF("d", SzMarker(<<0>>, TRUE, TRUE))>>, "fullbad", FALSE),
     V1(<<U1("a"), DataF("d", SzMarker(<<0>>, FALSE, TRUE))>>, "fullbad", FALSE),
     V1(<<U1("a"), DataF("d", SzField("a"))>>, "fullbad", FALSE),
     V1(<<U1("a"), DataF("d", SzRegex("Xplus", TRUE, TRUE))>>, "fullbad", FALSE),
     VDecl([C0 |-> Class(DefaultOpts, <<U1("h"), RepCountF("r", RefF("e", "C1"), SzConst(1), NoCond, 0)>>),
            C1 |-> Class(DefaultOpts, <<DataF("d", SzMarker(<<0>>, TRUE, TRUE))>>)], "full", 1, FALSE),
     \* a self-referential class (an optional reference back to the class itself, through a callable): a failure three levels
     \* down (the innermost default packet holds an unrepresentable value) is reported with one entry per level
     VDecl([C0 |-> Class(DefaultOpts, <<U1("t"), WithDflt(U1("v"), 300),
                                        OptF("o", RefSelF("e", EC(0), <<[key |-> 0, alt |-> RefF("", "C0")]>>, "lambda", IntV(0)), SzField("t"))>>)],
           "full", 1, FALSE),
     \* ... and the same class nested 20 levels deep (a failure under more enclosing references than fit a screen)
     VDecl([C0 |-> Class(DefaultOpts, <<U1("t"), WithDflt(U1("v"), 300),
                                        OptF("o", RefSelF("e", EC(0), <<[key |-> 0, alt |-> RefF("", "C0")]>>, "lambda", IntV(0)), SzField("t"))>>)],
           "given", 1, FALSE) @@ [ks |-> {DeepChain(20, 300).vals, DeepChain(17, 256).vals, DeepChain(16, 5).vals}]}

\* -------------------------------------------------------------------- C07 (pack side)
U_C07V(zz) == {V1(BitFields(ws), "full", TRUE) : ws \in {<<4, 4>>, <<3, 5>>, <<1, 7>>, <<1, 6, 1>>, <<8>>}}
          \cup {V1(BitFields(ws), "full", FALSE) : ws \in {<<12, 4>>, <<4, 12>>, <<1, 22, 1>>, <<12, 12>>, <<5, 6, 5>>}}
          \cup {V1(<<U1("pre")>> \o BitFields(<<3, 5>>) \o <<U1("post")>>, "full", FALSE)}
          \* a run of the class itself and a run that comes in through an embedding reference, each starting at the same index
          \* of ITS class's field list, the own one wider: two runs, two shared integers
          \cup {VDecl([C0 |-> Class(DefaultOpts, <<BitsF("k", 4), BitsF("q", 12)>> \o Embedded("p", "C1", <<>>, <<BitsF("h", 3), BitsF("l", 5)>>)),
                       C1 |-> Class(DefaultOpts, <<BitsF("h", 3), BitsF("l", 5)>>)], "full", 1, FALSE)}
          \* a pack that fails in the middle of a run must leave nothing behind for the packs that follow
          \cup {V1(BitFields(ws), "fullbad", FALSE) : ws \in {<<2, 3, 3>>, <<4, 8, 4>>}}

\* -------------------------------------------------------------------- C20
U_C20(zz) == {EqDecl([C0 |-> Class(DefaultOpts, <<U1("a"), IntF("_reserved", 2, FALSE, "default"), DataF("_pad", SzConst(1)), RefF("s", "C1")>>),
                      C1 |-> Class(DefaultOpts, <<U1("_x"), U1("y")>>)]),
          EqDecl([C0 |-> Class(DefaultOpts, Embedded("p", "C1", <<[n |-> "x", v |-> IntV(1)]>>, Sub1.fields) \o <<U1("z")>>), C1 |-> Sub1]),
          EqDecl([C0 |-> Class(DefaultOpts, <<U1("a"), IntF("b", 2, TRUE, "little"), DataF("d", SzField("a"))>>)]),
          EqDecl([C0 |-> Class(DefaultOpts, <<U1("a"), MvField(U1("b"), [kind |-> "at", arg |-> SzConst(3), ref |-> "innermost-pkt"]), U1("c")>>)]),
          EqDecl([C0 |-> Class(DefaultOpts, <<U1("a"), MvField(DataF("d", SzConst(1)), [kind |-> "shift", arg |-> SzConst(1), ref |-> "current-offset"]),
                                              MvField(U1("c"), [kind |-> "aligned", arg |-> SzConst(4), ref |-> "begins"])>>)]),
          EqDecl([C0 |-> Class([DefaultOpts EXCEPT !.align = 2], <<U1("a"), IntF("b", 2, FALSE, "default")>>)]),
          EqDecl([C0 |-> Class(DefaultOpts, <<U1("a"), BitsF("h", 4), BitsF("l", 4), EmF("tail")>>)]),
          EqDecl([C0 |-> Class(DefaultOpts, <<WithDesc(U1("n"), [kind |-> "autolen", of |-> "d"]), DataF("d", SzField("n")), U1("z")>>)]),
          EqDecl([C0 |-> Class(DefaultOpts, <<U1("t"), RefF("s", "C1"), RepCountF("r", RefF("e", "C1"), SzField("t"), NoCond, 0),
                                              OptF("o", U1("e"), SzField("t"))>>), C1 |-> Sub1]),
          \* three levels of nesting with a list two levels down: a change deep inside q must make it unequal to p
          EqDecl([C0 |-> Class(DefaultOpts, <<U1("t"), RefF("s", "C1")>>),
                  C1 |-> Class(DefaultOpts, <<U1("a"), RefF("m", "C2"), [RepCountF("k", U1("e"), SzConst(1), NoCond, 0) EXCEPT !.dflt = <<IntV(1)>>]>>),
                  C2 |-> Class(DefaultOpts, <<U1("x"), U1("y")>>)]),
          \* optional SIZED values (present on one side, absent on the other); an embedded class with a described field
          EqDecl([C0 |-> Class(DefaultOpts, <<U1("t"), OptF("o", DataF("e", SzConst(1)), SzField("t")),
                                              RepCountF("q", DataF("e", SzConst(1)), SzConst(1), SzField("t"), 0)>>)]),
          EqDecl([C0 |-> Class(DefaultOpts, Embedded("l", "C1", <<>>, <<WithDesc(U1("n"), [kind |-> "autolen", of |-> "d"]), DataF("d", SzField("n"))>>) \o <<U1("z")>>),
                  C1 |-> Class(DefaultOpts, <<WithDesc(U1("n"), [kind |-> "autolen", of |-> "d"]), DataF("d", SzField("n"))>>)]),
          EqDecl([C0 |-> Class(DefaultOpts, <<U1("t"), RefSelF("v", EF("t"), <<[key |-> 0, alt |-> IntF("", 1, FALSE, "default")],
                                                                               [key |-> 1, alt |-> RefF("", "C1")]>>, "lambda", IntV(0)),
                                              MvField(EmF("tail"), [kind |-> "aligned", arg |-> SzConst(4), ref |-> "innermost-pkt"])>>), C1 |-> Sub1]),
          \* fields named like methods of built-in containers (the library's own documentation has a field called `items`)
          EqDecl([C0 |-> Class(DefaultOpts, <<U1("count"), RepCountF("items", U1("e"), SzField("count"), NoCond, 0), U1("keys"), DataF("values", SzConst(1))>>)]),
          \* long values: a declared default written as a tuple of 70 elements, a list of 70, 100 bytes (printing and comparing
          \* must not depend on how long or of which sequence type a value is)
          EqDecl([C0 |-> Class(DefaultOpts, <<U1("t"), [RepCountF("r", U1("e"), SzConst(70), NoCond, 0) EXCEPT !.dflt = [i \in 1..70 |-> IntV(i % 3)]] @@ [tupledflt |-> TRUE],
                                              WithDflt(DataF("d", SzMarker(<<0>>, FALSE, TRUE)), RepB(65, 100))>>)]),
          EqDecl([C0 |-> Class(DefaultOpts, <<U1("t"), [RepCountF("r", U1("e"), SzConst(70), NoCond, 0) EXCEPT !.dflt = [i \in 1..70 |-> IntV(i % 3)]]>>)]),
          \* a nested packet of ANOTHER class with the same field names and equal values (a request against a reply), one and
          \* two levels down: not equal
          EqDecl([C0 |-> Class(DefaultOpts, <<U1("t"), RefSelF("v", EF("t"), <<[key |-> 0, alt |-> RefF("", "C1")], [key |-> 1, alt |-> RefF("", "C2")]>>,
                                                                       "lambda", SubV(0, 0))>>), C1 |-> Sub1, C2 |-> Sub1]),
          EqDecl([C0 |-> Class(DefaultOpts, <<U1("a"), RefF("s", "C3")>>),
                  C3 |-> Class(DefaultOpts, <<RefSelF("v", EC(0), <<[key |-> 0, alt |-> RefF("", "C1")], [key |-> 1, alt |-> RefF("", "C2")]>>, "lambda", SubV(0, 0))>>),
                  C1 |-> Sub1, C2 |-> Sub1])}

\* -------------------------------------------------------------------- C19
SharedAlts2 == <<[key |-> 0, alt |-> IntF("", 2, FALSE, "default")], [key |-> 1, alt |-> DataF("", SzConst(1))]>>
U_C19(zz) ==
    {V1(<<WithDflt(U1("a"), 5), IntF("b", 2, TRUE, "little"), WithDflt(DataF("d", SzConst(2)), <<65, 66>>), DataF("e", SzConst(3)),
          DataF("f", SzField("a"))>>, "subsets", FALSE),
     V1(<<WithDflt(BitsF("h", 3), 5), BitsF("l", 5), U1("z")>>, "subsets", FALSE),
     VDecl([C0 |-> Class(DefaultOpts, <<WithDflt(U1("t"), 1), [RefF("s", "C1") EXCEPT !.over = <<[n |-> "x", v |-> IntV(9)]>>],
                                        RefF("q", "C1"), OptF("o", U1("e"), SzField("t"))>>), C1 |-> SubD], "subsets", 1, FALSE),
     VDecl([C0 |-> Class(DefaultOpts, <<U1("n"), [RepCountF("r", U1("e"), SzField("n"), NoCond, 0) EXCEPT !.dflt = <<IntV(1), IntV(2)>>],
                                        RepCountF("k", RefF("e", "C1"), SzConst(1), NoCond, 0),
                                        [OptF("o", DataF("e", SzConst(1)), SzField("n")) EXCEPT !.dflt = BytesV(<<65>>)]>>), C1 |-> SubD], "subsets", 0, FALSE),
     \* mutable defaults: a list of packets, a packet for an optional, a packet for a selected reference
     VDecl([C0 |-> Class(DefaultOpts, <<U1("n"),
                [RepCountF("r", RefF("e", "C1"), SzField("n"), NoCond, 0) EXCEPT !.dflt = <<SubV(3, 0), SubV(7, 0)>>],
                [OptF("o", RefF("e", "C1"), SzField("n")) EXCEPT !.dflt = SubV(7, 4)],
                RefSelF("v", EF("n"), <<[key |-> 0, alt |-> IntF("", 1, FALSE, "default")], [key |-> 1, alt |-> RefF("", "C1")]>>,
                        "lambda", SubV(5, 0))>>), C1 |-> SubD], "subsets", 0, FALSE),
     VDecl([C0 |-> Class(DefaultOpts, <<U1("t"), RefSelF("v", EF("t"), <<[key |-> 0, alt |-> IntF("", 2, FALSE, "default")],
                                                                          [key |-> 1, alt |-> RefF("", "C1")]>>, "chooses", IntV(3)),
                                        DataF("m", SzMarker(<<0>>, FALSE, TRUE)), EmF("tail")>>), C1 |-> SubD], "subsets", 0, FALSE),
     \* nested packets with a described field in declared defaults: the prototype of a plain reference built WITH the keyword
     \* (clones keep it assigned), a list default and an optional default holding packets built with it
     VDecl([C0 |-> Class(DefaultOpts, <<U1("t"), [RefF("s", "C1") EXCEPT !.over = <<[n |-> "n", v |-> IntV(9)]>>],
                                        [RepCountF("r", RefF("e", "C1"), SzConst(1), NoCond, 0) EXCEPT !.dflt = <<LenV(9, <<65, 66>>)>>],
                                        [OptF("o", RefF("e", "C1"), SzField("t")) EXCEPT !.dflt = LenV(7, <<>>)]>>),
            C1 |-> SubLenD], "subsets", 0, FALSE),
     \* a declared default written as a TUPLE of packets: every construction still gets elements of its own
     VDecl([C0 |-> Class(DefaultOpts, <<U1("n"), [RepCountF("r", RefF("e", "C1"), SzConst(2), NoCond, 0)
                                                    EXCEPT !.dflt = <<SubV(3, 0), SubV(7, 0)>>] @@ [tupledflt |-> TRUE]>>), C1 |-> SubD], "subsets", 0, FALSE),
     \* an embedding reference: the embedded fields take the declared defaults of the embedded CLASS (not the values of the
     \* prototype instance - the documented quirk), and the embedded class itself is left as it was declared
     VDecl([C0 |-> Class(DefaultOpts, Embedded("p", "C1", <<[n |-> "x", v |-> IntV(1)], [n |-> "y", v |-> IntV(2)]>>, SubD.fields)
                                        \o <<RefF("q", "C1"), U1("z")>>), C1 |-> SubD], "subsets", 1, FALSE),
     \* described fields: a keyword naming one forces its value (it reads and packs as given), otherwise it is computed
     V1(<<WithDesc(WithDflt(U1("n"), 9), [kind |-> "autolen", of |-> "d"]), WithDflt(DataF("d", SzMarker(<<0>>, FALSE, TRUE)), <<65, 66>>), U1("z")>>,
        "subsets", FALSE),
     V1(<<U1("a"), WithDesc(IntF("s", 2, FALSE, "default"), [kind |-> "auto", e |-> EBin("add", EF("a"), EC(1))]),
          WithDesc(U1("k"), [kind |-> "autolen", of |-> "r"]), [RepCountF("r", U1("e"), SzField("k"), NoCond, 0) EXCEPT !.dflt = <<IntV(1), IntV(2)>>]>>,
        "subsets", FALSE),
     \* fields whose names begin with an underscore (reserved / padding fields) are fields like any other: keywords name them
     V1(<<WithDflt(U1("_reserved"), 7), WithDflt(DataF("_pad", SzConst(2)), <<65, 66>>), IntF("_mbz", 2, FALSE, "little"), U1("z")>>, "subsets", FALSE),
     \* the referenced class has fields of the SAME NAMES as the referring one, with other declared defaults
     VDecl([C0 |-> Class(DefaultOpts, <<WithDflt(U1("x"), 3), WithDflt(IntF("y", 2, TRUE, "little"), 0 - 2), RefF("s", "C1"),
                                        WithDflt(DataF("d", SzConst(2)), <<65, 66>>)>>), C1 |-> SubD,
            \* ... and so has a class of the same module that is defined AFTER it and that nothing refers to
            C2 |-> Class(DefaultOpts, <<WithDflt(U1("x"), 9), WithDflt(IntF("y", 2, TRUE, "little"), 5), WithDflt(DataF("d", SzConst(2)), <<67, 68>>)>>)],
           "subsets", 1, FALSE),
     \* two references that select their format from ONE shared option table (a source and a destination address): each
     \* keeps its own default and its own keyword
     \* (alternatives of different kinds, so that a value says which one it is an encoding of)
     VDecl([C0 |-> Class(DefaultOpts, <<U1("t"), RefSelSharedF("v", EF("t"), SharedAlts2, "T1", IntV(5)),
                                        RefSelSharedF("w", EF("t"), SharedAlts2, "T1", IntV(6)), U1("z")>>)], "subsets", 0, FALSE),
     \* a descriptor whose function SERIALISES another packet (a length / checksum over `pkt.b.pack()`), one level down: its
     \* before-pack hook runs while the enclosing packet has already written bytes, so pack() is re-entered
     VDecl([C0 |-> Class(DefaultOpts, <<WithDflt(U1("t"), 1), RefF("s", "C1"), U1("z")>>),
            C1 |-> Class(DefaultOpts, <<WithDesc(U1("n"), [kind |-> "auto", e |-> EBin("add", EPackLen(EF("b")), EC(1))]), RefF("b", "C2")>>),
            C2 |-> SubD], "subsets", 1, FALSE)}

\* universes take a dummy parameter so that TLC does not evaluate all of them at start-up; a profile names the one it explores
PickUV(n) ==
    CASE n = "U_C12V" -> U_C12V(0)
      [] n = "UV_Smoke" -> UV_Smoke(0)
      [] n = "U_C02" -> U_C02(0)
      [] n = "U_C02_Pos" -> U_C02_Pos(0)
      [] n = "U_C02_Long" -> U_C02_Long(0)
      [] n = "U_C03V" -> U_C03V(0)
      [] n = "U_C07V" -> U_C07V(0)
      [] n = "U_C20" -> U_C20(0)
      [] n = "U_C19" -> U_C19(0)
=============================================================================
