---------------------------- MODULE Trace_Values ----------------------------
(***************************************************************************)
(* code -> spec for the value-driven profile.  Each record of the batch     *)
(* (IOEnv.TRACE_FILE) carries the declaration, the constructor keywords K   *)
(* and what the harness observed on the real classes:                       *)
(*   cv   the values of the constructed packet (projection of every field)  *)
(*   cp   pack():  [st, out, err]                                           *)
(*   cu   unpack(out): [st, endc, result]   (st "none" when pack failed)    *)
(*   mod  the attribute re-assigned before the second pack ("" = none)      *)
(*   cp2  second pack                                                       *)
(* TLC evaluates the specification's functions (Construct, ConsistentPkt,   *)
(* Layout) on the recorded data; failed clause names are printed per record.*)
(***************************************************************************)
EXTENDS Values, Json, IOUtils

Traces == JsonDeserialize(IOEnv.TRACE_FILE)

VARIABLES tid
Init == tid \in 1..Len(Traces)
Next == UNCHANGED tid
Spec == Init /\ [][Next]_tid

T == Traces[tid]
DP == DescribeProg(T.prog)
F(name, ok) == IF ok THEN {} ELSE {name}

DescNames(prog, cls) == {prog[cls].fields[i].name : i \in {j \in 1..Len(prog[cls].fields) :
                            prog[cls].fields[j].k = "Int" /\ prog[cls].fields[j].desc.kind # "none"}}
Plain == NoPositioning(T.prog) /\ DescNames(T.prog, T.root) = {}
V == Construct(T.prog, T.root, T.K)
Consistent == ConsistentPkt(T.prog, T.root, V)
V2 == SetVal(V, T.mod.n, T.mod.v)
BitsOnlyIllTyped ==
    \A i \in 1..Len(T.prog[T.root].fields) :
        LET f == T.prog[T.root].fields[i] IN
        f.k = "Bits" \/ f.k \in {"Em", "Move", "Emb"} \/ WellTyped(T.prog, f, Lookup(V, f.name))

Failed ==
    \* C19: the constructed packet holds the declared defaults, overridden exactly where K names a field
    F("C19_Construct", T.cv = V) \cup
    \* C02 / C19: a consistent, plainly laid out assignment serialises to the concatenation of its encodings
    F("C02_PackSucceeds", (Consistent /\ Plain) => T.cp.st = "done") \cup
    F("C02_Layout", (Consistent /\ Plain /\ T.cp.st = "done") => T.cp.out = Layout(T.prog, T.root, V)) \cup
    F("C02_Reparse", (Consistent /\ Plain /\ T.cp.st = "done") =>
            (T.cu.st = "done" /\ T.cu.endc = Len(T.cp.out) /\ T.cu.result.vals = V)) \cup
    F("C02_AssertConsistency", (Consistent /\ Plain) => T.ac) \cup
    \* with positioning: whenever a consistent assignment packs and the output parses, it parses to that assignment
    F("C02_PosReparse", (Consistent /\ T.cp.st = "done" /\ T.cu.st = "done") => T.cu.result.vals = V) \cup
    \* C07: bit fields are reduced modulo 2^w into their own slice, whatever the values
    F("C07_Isolated", (Plain /\ BitsOnlyIllTyped /\ (\A i \in 1..Len(V) : V[i].v.t = "int")) =>
            (T.cp.st = "done" /\ T.cp.out = Layout(T.prog, T.root, V))) \cup
    F("C07_Pack2", (T.mod.n # "" /\ Plain /\ ConsistentPkt(T.prog, T.root, V2) /\ T.cp2.st = "done") =>
            T.cp2.out = Layout(T.prog, T.root, V2)) \cup
    \* C05-style: an ill-typed integer never serialises
    F("C02_RejectsIllTyped", (Plain /\ T.cp.st = "done") =>
            \A i \in 1..Len(T.prog[T.root].fields) :
                LET f == T.prog[T.root].fields[i] IN
                f.k = "Int" => WellTyped(T.prog, f, Lookup(V, f.name)))

\* C20: equality is structural and total (recorded: the visible values of both packets, the results of == and !=)
FailedEq ==
    IF ~T.eq.has THEN {}
    ELSE F("C20_Total", T.eq.errors = 0) \cup
         F("C20_Structural", T.eq.errors = 0 => (T.eq.eq = (T.eq.cv1 = T.eq.cv2) /\ T.eq.ne = ~T.eq.eq)) \cup
         F("C20_ParsedEqual", (T.eq.errors = 0 /\ T.eq.hasparsed) =>
                (T.eq.parsed_eq /\ T.eq.parsed_vs_built = (T.eq.parsed_vals = T.eq.cv1)))

Report == PrintT(<<"RES", tid, SetToSeq(Failed \cup FailedEq)>>)
=============================================================================
