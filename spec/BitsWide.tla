------------------------------ MODULE BitsWide ------------------------------
(***************************************************************************)
(* Runs of bit fields of ANY total width (40, 48, 64, 72 bits ..), on bit    *)
(* SEQUENCES instead of integers (the packet machine keeps the shared       *)
(* integer of a run in a TLC integer, which stops at 31 bits).              *)
(* A run is a sequence ws of widths whose sum is a multiple of 8; its bytes  *)
(* are one big-endian bit string, most significant member first:            *)
(*   Members(ws, bs)   the bit slice of every member            (unpack)    *)
(*   Bytes(ws, vs)     every member's value reduced modulo 2^w into its      *)
(*                     slice, and into its slice only            (pack)     *)
(* A value is a bit string of any length (its binary digits, most           *)
(* significant first); reducing modulo 2^w keeps the last w digits.         *)
(***************************************************************************)
EXTENDS Integers, Sequences, TLC, Json

RECURSIVE SumSeq(_)
SumSeq(s) == IF s = <<>> THEN 0 ELSE s[1] + SumSeq(Tail(s))
Pow2(n) == CASE n = 0 -> 1 [] n = 1 -> 2 [] n = 2 -> 4 [] n = 3 -> 8 [] n = 4 -> 16 [] n = 5 -> 32 [] n = 6 -> 64 [] OTHER -> 128
BitsOfByte(b) == [i \in 1..8 |-> (b \div Pow2(8 - i)) % 2]
RECURSIVE BitString(_)
BitString(bs) == IF bs = <<>> THEN <<>> ELSE BitsOfByte(bs[1]) \o BitString(Tail(bs))
ByteOfBits(x) == x[1] * 128 + x[2] * 64 + x[3] * 32 + x[4] * 16 + x[5] * 8 + x[6] * 4 + x[7] * 2 + x[8]
RECURSIVE BytesOfBits(_)
BytesOfBits(x) == IF x = <<>> THEN <<>> ELSE <<ByteOfBits(SubSeq(x, 1, 8))>> \o BytesOfBits(SubSeq(x, 9, Len(x)))

Start(ws, k) == SumSeq(SubSeq(ws, 1, k - 1))        \* bits in front of member k
Members(ws, bs) == LET x == BitString(bs) IN [k \in 1..Len(ws) |-> SubSeq(x, Start(ws, k) + 1, Start(ws, k) + ws[k])]
\* the last w digits of a value (zeros in front of a shorter one)
Reduce(v, w) == IF Len(v) >= w THEN SubSeq(v, Len(v) - w + 1, Len(v)) ELSE [i \in 1..(w - Len(v)) |-> 0] \o v
RECURSIVE Concat(_, _, _)
Concat(ws, vs, k) == IF k > Len(ws) THEN <<>> ELSE Reduce(vs[k], ws[k]) \o Concat(ws, vs, k + 1)
Bytes(ws, vs) == BytesOfBits(Concat(ws, vs, 1))

\* ---------------------------------------------------------------- model checking profile
CONSTANTS Part, NParts
VARIABLES ws, bs, mod
vars == <<ws, bs, mod>>

Runs == << <<4, 12, 32>>, <<8, 56, 8>>, <<1, 62, 1>>, <<33, 7>>, <<40>>, <<20, 20>>, <<4, 36>>, <<7, 33, 32>>, <<12, 4>>, <<1, 30, 1>> >>
Lanes == {0, 255, 165, 1, 128}
\* byte strings with at most two lanes different from the filler
Patterns(n) == {[i \in 1..n |-> IF i = a THEN x ELSE IF i = b THEN y ELSE f] : a \in 1..n, b \in 1..n, x \in Lanes, y \in Lanes, f \in {0, 255}}
\* what one member is re-assigned to before packing again: too wide by one digit, all ones and longer (-1), zero
Mods(w) == {<<>>, [i \in 1..(w + 1) |-> 1], <<1>> \o [i \in 1..w |-> 0], [i \in 1..w |-> 1]}

Init == /\ \E r \in {j \in 1..Len(Runs) : j % NParts = Part} : ws = Runs[r]
        /\ bs \in Patterns(SumSeq(ws) \div 8)
        /\ \E k \in 1..Len(ws) : mod \in {[k |-> k, v |-> v] : v \in Mods(ws[k])}
Next == UNCHANGED vars
Spec == Init /\ [][Next]_vars

M == Members(ws, bs)
M2 == [M EXCEPT ![mod.k] = mod.v]
\* C01 / C07: the slices put back give the bytes; re-assigning one member changes its own slice only
Inv_RoundTrip == Bytes(ws, M) = bs
Inv_Isolated == LET m3 == Members(ws, Bytes(ws, M2)) IN
                \A k \in 1..Len(ws) : m3[k] = IF k = mod.k THEN Reduce(mod.v, ws[k]) ELSE M[k]
Emit == PrintT(<<"EMIT", ToJson([ws |-> ws, bs |-> bs, members |-> M, k |-> mod.k, v |-> mod.v, bytes2 |-> Bytes(ws, M2)])>>)
=============================================================================
