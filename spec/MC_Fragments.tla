--------------------------- MODULE MC_Fragments ---------------------------
(***************************************************************************)
(* Model-checking profile for C11: all histories of insert / append /       *)
(* cursor assignment on one Fragments object, reference and implementation  *)
(* evolving together.                                                       *)
(***************************************************************************)
EXTENDS Fragments, TLC, Json

CONSTANTS
    MaxOps,      \* history length bound
    MaxPos,      \* insert positions 0..MaxPos
    MaxLen,      \* chunk length 0..MaxLen
    Alphabet,    \* set of byte values used in chunks
    KeepHist,    \* TRUE: carry the full history (replay profile, states do not merge)
    AsIs         \* TRUE: accept the named deviation F5(a) (pinned behaviour)

VARIABLES f, r, last, n, hist
vars == <<f, r, last, n, hist>>

Chunks == UNION {[1..k -> Alphabet] : k \in 0..MaxLen}

NoOp == [op |-> "none", p |-> 0, s |-> <<>>, raised |-> FALSE, occupied |-> FALSE, falsecol |-> FALSE]

Snapshot(ff, o) == [op |-> o.op, p |-> o.p, s |-> o.s, raised |-> o.raised,
                    occupied |-> o.occupied, falsecol |-> o.falsecol,
                    cur |-> ff.cur, begins |-> ff.begins, items |-> FItems(ff),
                    out |-> FToBytes(ff)]

Record(o, ff) == hist' = IF KeepHist THEN Append(hist, Snapshot(ff, o)) ELSE hist

Init == f = FInit /\ r = RInit /\ last = NoOp /\ n = 0 /\ hist = <<>>

\* one call of insert(p, s); `op` distinguishes how the user reached it
DoInsert(op, p, s) ==
    LET res == FInsert(f, p, s)
        o   == [op |-> op, p |-> p, s |-> s, raised |-> ~res.ok,
                occupied |-> Occupied(r, p, Len(s)),
                falsecol |-> FalseCollisionOnEmptySuccessor(f, r, p, s)]
    IN /\ f' = res.f
       /\ r' = IF res.ok THEN RStore(r, p, s) ELSE r
       /\ last' = o
       /\ n' = n + 1
       /\ Record(o, res.f)

Insert == \E p \in 0..MaxPos, s \in Chunks : DoInsert("insert", p, s)
Append_ == \E s \in Chunks : DoInsert("append", f.cur, s)      \* append / each element of extend
SetCursor == \E v \in 0..MaxPos :
    LET o == [op |-> "setcur", p |-> v, s |-> <<>>, raised |-> FALSE, occupied |-> FALSE, falsecol |-> FALSE]
    IN /\ f' = FSetCursor(f, v) /\ r' = r /\ last' = o /\ n' = n + 1 /\ Record(o, FSetCursor(f, v))

Next == n < MaxOps /\ (Insert \/ Append_ \/ SetCursor)

Spec == Init /\ [][Next]_vars

\* ------------------------------------------------------------- properties
IsInsert(o) == o.op \in {"insert", "append"}

\* a non-empty insert raises exactly when some byte of its span is occupied
Inv_C11_RaiseExact ==
    (IsInsert(last) /\ Len(last.s) > 0) =>
        \/ last.raised <=> last.occupied
        \/ (AsIs /\ last.falsecol)

\* on success the cursor is p + len
Inv_C11_Cursor ==
    (IsInsert(last) /\ ~last.raised) => f.cur = last.p + Len(last.s)

\* stored bytes are never altered or dropped (action property)
Prop_C11_NoLoss ==
    [][\A q \in DOMAIN r.mem : q \in DOMAIN r'.mem /\ r'.mem[q] = r.mem[q]]_vars

\* a raising insert changes nothing
Prop_C11_RaiseNoEffect ==
    [][(IsInsert(last') /\ last'.raised) => (f' = f /\ r' = r)]_vars

\* the implementation holds exactly the bytes of the sparse array
Inv_C11_Mem == MemOf(f) = r.mem

\* tobytes: every stored byte at its position, fill in holes, length = extent
Inv_C11_ToBytes == FToBytes(f) = RBytes(r)

Inv_Struct == BeginsSorted(f) /\ BeginsMatch(f) /\ Disjoint(f)

\* ------------------------------------------------------------ replay export
Emit == (KeepHist /\ n = MaxOps) => PrintT(<<"EMIT", ToJson(hist)>>)
=============================================================================
