------------------------------ MODULE Deferred ------------------------------
(***************************************************************************)
(* C09: deferred field expressions (bisturi/deferred.py).                   *)
(*                                                                          *)
(*  syntax tree     what the user writes over fields, constants, operators  *)
(*     [s |-> "L", leaf]   leaf in F1, F2 (Int fields), S (a Data field),   *)
(*                         FS (an Int field used as selector), K (constant) *)
(*     [s |-> "B", op, l, r]      l op r        (also l[r] as op "getitem") *)
(*     [s |-> "U", op, a]         -a, ~a                                    *)
(*     [s |-> "N", fn, form, a, alts]   a.chooses(...) / a.if_true_then_else*)
(*  Build     the operator-method rules -> UnaryExpr/BinaryExpr/NaryExpr    *)
(*  Compile   compile_expr: postfix program                                 *)
(*  Run       exec_compiled_expr: the stack machine (top of stack = index 1)*)
(* Values are TERMS of the free algebra, so an operand-order or arity slip  *)
(* changes the result for every tree shape.                                 *)
(***************************************************************************)
EXTENDS Integers, Sequences, FiniteSets, SequencesExt, TLC

\* ---------------------------------------------------------------- terms
Leaf(x) == [o |-> x]
T(op, args) == [o |-> op, a |-> args]

\* which leaves are deferred objects, and of which category
IsConst(t) == t.s = "L" /\ t.leaf = "K"
IntField(t) == t.s = "L" /\ t.leaf \in {"F1", "F2", "FS"}
SeqField(t) == t.s = "L" /\ t.leaf = "S"
IsExprNode(t) == t.s \in {"B", "U", "N"}

IntegerBin == {"add", "sub", "mul", "floordiv", "mod", "pow", "le", "lt", "ge", "gt", "eq", "ne",
               "and", "or", "xor", "rshift", "lshift", "truediv"}
SequenceBin == {"eq", "ne", "getitem"}
ReverseBin == {"add", "sub", "mul", "truediv", "floordiv", "mod", "pow", "and", "or", "xor", "rshift", "lshift"}
Mirror(op) == CASE op = "lt" -> "gt" [] op = "gt" -> "lt" [] op = "le" -> "ge" [] op = "ge" -> "le" [] OTHER -> op
Comparisons == {"lt", "le", "gt", "ge", "eq", "ne"}

\* does the object denoted by tree t have the plain method for op / the reflected method for op ?
HasMethod(t, op) == IF IsExprNode(t) THEN op \in IntegerBin \cup SequenceBin
                    ELSE IF IntField(t) THEN op \in IntegerBin
                    ELSE IF SeqField(t) THEN op \in SequenceBin
                    ELSE FALSE
HasReflected(t, op) == (IsExprNode(t) \/ IntField(t)) /\ op \in ReverseBin
HasUnary(t, op) == IF IsExprNode(t) THEN op \in {"neg", "inv"}
                   ELSE IF IntField(t) THEN op \in {"neg", "inv"} ELSE FALSE

\* a tree Python can build without TypeError
RECURSIVE WellFormed(_)
WellFormed(t) ==
    CASE t.s = "L" -> TRUE
      [] t.s = "U" -> WellFormed(t.a) /\ HasUnary(t.a, t.op)
      [] t.s = "B" -> /\ WellFormed(t.l) /\ WellFormed(t.r)
                      /\ ~(IsConst(t.l) /\ IsConst(t.r))
                      /\ \/ HasMethod(t.l, t.op)
                         \/ (t.op \notin Comparisons /\ t.op # "getitem" /\ HasReflected(t.r, t.op))
                         \/ (t.op \in Comparisons /\ HasMethod(t.r, Mirror(t.op)))
      [] OTHER -> /\ WellFormed(t.a) /\ ~IsConst(t.a) /\ \A i \in 1..Len(t.alts) : WellFormed(t.alts[i])

\* --------------------------------------------- the meaning: eager evaluation
RECURSIVE TermOf(_)
TermOf(t) ==
    CASE t.s = "L" -> Leaf(t.leaf)
      [] t.s = "U" -> T(t.op, <<TermOf(t.a)>>)
      [] t.s = "B" -> T(t.op, <<TermOf(t.l), TermOf(t.r)>>)
      [] OTHER -> T(t.fn, <<TermOf(t.a), T(IF t.form \in {"dict", "kw"} THEN "mapping" ELSE "tuple",
                                            [i \in 1..Len(t.alts) |-> TermOf(t.alts[i])])>>)

\* a > b means b < a; x == y is symmetric: canonical forms so that mirrored dispatch compares equal
RECURSIVE Canon(_)
Canon(x) ==
    IF "a" \notin DOMAIN x THEN x
    ELSE LET args == [i \in 1..Len(x.a) |-> Canon(x.a[i])] IN
         IF x.o \in {"gt", "ge"} THEN T(Mirror(x.o), <<args[2], args[1]>>)
         ELSE IF x.o \in {"eq", "ne"} /\ args[1] = Leaf("K") THEN T(x.o, <<args[2], args[1]>>)
         ELSE T(x.o, args)

\* ---------------------------------------------------------------- Build
\* internal expressions: [x |-> "leaf", leaf] | [x |-> "un", a, op] | [x |-> "bin", l, r, op]
\*                      | [x |-> "nary", left, args, mapping, op]
RECURSIVE Build(_)
Build(t) ==
    CASE t.s = "L" -> [x |-> "leaf", leaf |-> t.leaf]
      [] t.s = "U" -> [x |-> "un", a |-> Build(t.a), op |-> t.op]
      [] t.s = "B" ->
            IF HasMethod(t.l, t.op)
            THEN [x |-> "bin", l |-> Build(t.l), r |-> Build(t.r), op |-> t.op]               \* l.__op__(r)
            ELSE IF t.op \in Comparisons
                 THEN [x |-> "bin", l |-> Build(t.r), r |-> Build(t.l), op |-> Mirror(t.op)]  \* r.__mirrored__(l)
                 ELSE [x |-> "bin", l |-> Build(t.l), r |-> Build(t.r), op |-> t.op]          \* r.__rop__(l): BinaryExpr(B, A, op)
      [] OTHER -> [x |-> "nary", left |-> Build(t.a), args |-> [i \in 1..Len(t.alts) |-> Build(t.alts[i])],
                   mapping |-> t.form \in {"dict", "kw"}, op |-> t.fn]

\* -------------------------------------------------------------- Compile
\* instructions: [n |-> 0, push |-> leaf] | [n |-> k, op |-> name]
RECURSIVE Compile(_)
RECURSIVE CompileAll(_, _)
CompileAll(es, i) == IF i > Len(es) THEN <<>> ELSE Compile(es[i]) \o CompileAll(es, i + 1)
Compile(e) ==
    CASE e.x = "leaf" -> <<[n |-> 0, push |-> e.leaf]>>
      [] e.x = "un" -> Compile(e.a) \o <<[n |-> 1, op |-> e.op]>>
      [] e.x = "bin" -> Compile(e.l) \o Compile(e.r) \o <<[n |-> 2, op |-> e.op]>>
      [] OTHER -> Compile(e.left) \o CompileAll(e.args, 1)
                  \o <<[n |-> Len(e.args), op |-> IF e.mapping THEN "mapping" ELSE "tuple"]>>
                  \o <<[n |-> 2, op |-> e.op]>>

\* ------------------------------------------------------------------ Run
\* one instruction on the stack (top = index 1): reversed(args[:n]), del args[:n], args.insert(0, result)
ApplyInstr(stack, ins) ==
    IF ins.n = 0 THEN <<Leaf(ins.push)>> \o stack
    ELSE <<T(ins.op, Reverse(SubSeq(stack, 1, ins.n)))>> \o SubSeq(stack, ins.n + 1, Len(stack))

Underflow(stack, ins) == ins.n > Len(stack)

\* ------------------------------------------------------ tree enumeration
Leaves == {[s |-> "L", leaf |-> x] : x \in {"F1", "F2", "K"}}
SeqLeaf == [s |-> "L", leaf |-> "S"]
SelLeaf == [s |-> "L", leaf |-> "FS"]

RECURSIVE TreesN(_, _, _, _)
\* all trees with exactly k operator nodes over the given operator sets
TreesN(k, bops, uops, naries) ==
    IF k = 0 THEN Leaves
    ELSE {[s |-> "U", op |-> op, a |-> a] : op \in uops, a \in TreesN(k - 1, bops, uops, naries)}
         \cup UNION {{[s |-> "B", op |-> op, l |-> l, r |-> r] :
                        op \in bops, l \in TreesN(i, bops, uops, naries), r \in TreesN(k - 1 - i, bops, uops, naries)} :
                     i \in 0..(k - 1)}
         \cup (IF k = 1 THEN {[s |-> "B", op |-> "getitem", l |-> SeqLeaf, r |-> [s |-> "L", leaf |-> "K"]],
                              [s |-> "B", op |-> "eq", l |-> SeqLeaf, r |-> [s |-> "L", leaf |-> "K"]],
                              [s |-> "B", op |-> "ne", l |-> [s |-> "L", leaf |-> "K"], r |-> SeqLeaf]} ELSE {})
         \cup (IF naries = {} THEN {}
               ELSE UNION {{[s |-> "N", fn |-> nf.fn, form |-> nf.form, a |-> SelLeaf, alts |-> <<x, y>>] :
                               nf \in naries, x \in TreesN(i, bops, uops, {}), y \in TreesN(k - 1 - i, bops, uops, {})} :
                           i \in 0..(k - 1)})
=============================================================================
