------------------------------- MODULE MC_Cut -------------------------------
(***************************************************************************)
(* C04, the truncation relation: two unpack machines on the same            *)
(* declaration, one on raw, one on raw cut at k.  If the first succeeds and *)
(* k falls inside the bytes of a value it decoded (and the parse has no     *)
(* open-ended scan, whose value legitimately shrinks), the second must      *)
(* fail: a cut never produces a packet with shortened, zero-extended or     *)
(* otherwise fabricated values.  (Every cut input is also an input of the   *)
(* single-machine profiles, where the code is compared with the machine;    *)
(* this module checks the relation itself on the specification.)            *)
(***************************************************************************)
EXTENDS PacketProps, Universes

CONSTANTS UName, Part, NParts

VARIABLES di, dp, endcap, input, k, m1, m2
vars == <<di, dp, endcap, input, k, m1, m2>>

U == PickU(UName)
\* a delimiter regex that can match at the end of the input ('$') reads to the end wherever the input ends
EndCapable(prog) == \E c \in DOMAIN prog : \E i \in 1..Len(prog[c].fields) :
                       LET f == prog[c].fields[i] IN f.k = "Data" /\ f.size.m = "regex" /\ f.size.r \in {"EOS", "dollar", "Xplus_or_end"}
USeq == SetToSeq(U)

Init == LET us == USeq IN
        \E i \in {j \in 1..Len(us) : j % NParts = Part} :
            LET d == us[i] IN
            /\ di = i /\ dp = DescribeProg(d.prog) /\ endcap = EndCapable(d.prog)
            /\ input \in {x \in InputsOf(d) : Len(x) >= 1}
            /\ k \in 0..(Len(input) - 1)
            /\ m1 = UInit(d.root, 0) /\ m2 = UInit(d.root, 0)
Next == /\ (RunningU(m1) \/ RunningU(m2))
        /\ m1' = IF RunningU(m1) THEN StepU(dp, input, m1) ELSE m1
        /\ m2' = IF RunningU(m2) THEN StepU(dp, SubSeq(input, 1, k), m2) ELSE m2
        /\ UNCHANGED <<di, dp, endcap, input, k>>
Spec == Init /\ [][Next]_vars

Done == ~RunningU(m1) /\ ~RunningU(m2)
O1 == UObsOf(m1)
CutInsideValue == \E i \in ValueReads(O1) : O1.reads[i].lo <= k /\ k < O1.reads[i].hi
\* moves may jump over bytes: what matters is that some decoded byte is missing
Inv_C04_Cut == (Done /\ m1.st = "done" /\ CutInsideValue /\ ~OpenEnded(O1) /\ ~endcap) => m2.st = "fail"
\* and a cut beyond everything the parse touched changes nothing
Touched == MaxSet({O1.reads[i].hi : i \in 1..Len(O1.reads)} \cup {0}, 0)
Inv_C04_CutBeyond == (Done /\ m1.st = "done" /\ k >= Touched) => (m2.st = "done" /\ m2.result = m1.result)
=============================================================================
