---------------------------- MODULE PacketProps ----------------------------
(***************************************************************************)
(* The listed properties as predicates over runs of the machines of         *)
(* Packet.tla.  MC_* modules evaluate them as invariants on the model's own *)
(* runs; Trace_* modules evaluate them on recorded runs of the real code.   *)
(***************************************************************************)
EXTENDS Packet

\* ------------------------------------------------ sanity of the machine
MachineSane(dp, raw, start, m) ==
    /\ m.st \in {"run", "unwind", "done", "fail"}
    /\ (m.st = "done") => m.result.t = "pkt"
    /\ \A i \in 1..Len(m.reads) : m.reads[i].lo >= 0 /\ m.reads[i].hi <= Len(raw) /\ m.reads[i].lo <= m.reads[i].hi

\* ------------------------------------------------------------------ C04
\* a successful unpack decoded every value from exactly the bytes it asked for,
\* all of them inside the input: no slice of a finished parse was clipped.
\* (scan windows are exempt: they are bounded by the buffer end by design)
C04_Exact(raw, m) ==
    m.st = "done" =>
        \A i \in 1..Len(m.reads) :
            LET r == m.reads[i] IN
            r.want >= 0 /\ (r.window \/ (r.hi - r.lo = r.want))

\* ------------------------------------------------------------------ C12
C12_StackShape(dp, err) ==
    /\ Len(err) >= 1
    /\ \A i \in 1..Len(err) : err[i].cls \in DOMAIN dp /\ err[i].off >= 0
          /\ \E j \in 1..Len(dp[err[i].cls].fields) : dp[err[i].cls].fields[j].name = err[i].name

\* ------------------------------------------------------------------ C01
\* positions consumed by value-bearing reads (relative to the start offset)
Consumed(m) == UNION {m.reads[i].lo .. (m.reads[i].hi - 1) : i \in {j \in 1..Len(m.reads) : ~m.reads[j].window}}

C01_RoundTrip(dp, raw, start, m, p) ==
    p.st = "done" =>
        /\ \A q \in Consumed(m) : q >= start =>
              (q - start + 1 <= Len(p.out) /\ p.out[q - start + 1] = raw[q + 1])
=============================================================================
