---------------------------- MODULE PacketProps ----------------------------
(***************************************************************************)
(* The listed packet-level properties as predicates over OBSERVATIONS of    *)
(* one unpack run and one pack run:                                         *)
(*   u = [st, endc, err, reads, evs, result]   st "done" | "fail" | "escape"*)
(*   p = [st, out, err, writes, evs]           st also "none" (not run)     *)
(* MC_* modules apply them to the machines' own runs (UObsOf / PObsOf);     *)
(* Trace_Packet applies the very same predicates to observations recorded   *)
(* from the real code, so the property is evaluated by TLC on both sides.   *)
(***************************************************************************)
EXTENDS Codegen

UObsOf(m) == [st |-> m.st, endc |-> m.cur, err |-> m.err, reads |-> m.reads, evs |-> m.evs,
              result |-> m.result]
NoPObs == [st |-> "none", out |-> <<>>, err |-> <<>>, writes |-> <<>>, evs |-> <<>>]
PObsOf(p) == IF p.st = "none" THEN NoPObs
             ELSE [st |-> p.st, out |-> p.out, err |-> p.err, writes |-> p.writes, evs |-> p.evs]

\* ------------------------------------------------ sanity of the machine
MachineSane(raw, m) ==
    /\ m.st \in {"run", "unwind", "done", "fail"}
    /\ (m.st = "done") => m.result.t = "pkt"
    /\ \A i \in 1..Len(m.reads) :
          m.reads[i].lo >= 0 /\ m.reads[i].hi <= Len(raw) /\ m.reads[i].lo <= m.reads[i].hi

ValueReads(u) == {i \in 1..Len(u.reads) : ~u.reads[i].window}
RangeOf(r) == r.lo .. (r.hi - 1)
Consumed(u) == UNION {RangeOf(u.reads[i]) : i \in ValueReads(u)}
MaxSet(S, dflt) == IF S = {} THEN dflt ELSE CHOOSE x \in S : \A y \in S : y <= x
\* the furthest position the parse reached
Traversed(u, start) ==
    MaxSet({u.reads[i].hi : i \in ValueReads(u)} \cup {u.evs[i].e : i \in 1..Len(u.evs)} \cup {u.endc, start}, start)

\* ------------------------------------------------------------------ C04
\* a successful unpack decoded every value from exactly the bytes it asked for, all inside
\* the input: no slice of a finished parse was clipped, no negative size accepted.
C04_Exact(raw, u) ==
    u.st = "done" =>
        \A i \in ValueReads(u) :
            LET r == u.reads[i] IN
            r.want >= 0 /\ r.hi - r.lo = r.want /\ r.lo >= 0 /\ r.hi <= Len(raw)

\* ------------------------------------------------------------------ C01
C01_Bytes(raw, start, u, p) ==
    (u.st = "done" /\ p.st = "done") =>
        \A q \in Consumed(u) : q >= start =>
            (q - start + 1 <= Len(p.out) /\ p.out[q - start + 1] = raw[q + 1])

\* positions a delimiter scan looked at (a consumed delimiter lies there, outside the value)
WindowCovered(u) == UNION {RangeOf(u.reads[i]) : i \in {j \in 1..Len(u.reads) : u.reads[j].window}}

C01_Fill(raw, start, u, p) ==
    (u.st = "done" /\ p.st = "done") =>
        \A i \in 1..Len(p.out) :
            ((start + i - 1) \notin Consumed(u) /\ (start + i - 1) \notin WindowCovered(u)) => p.out[i] = FILL

C01_Len(raw, start, u, p) ==
    (u.st = "done" /\ p.st = "done") => Len(p.out) <= Traversed(u, start) - start

Overlapping(u) == \E i, j \in ValueReads(u) : i < j /\ RangeOf(u.reads[i]) \cap RangeOf(u.reads[j]) # {}

\* the failing write of a pack (last entry of the write log, if it is a refused insert)
LastWriteRefused(p) == Len(p.writes) > 0 /\ p.writes[Len(p.writes)].op = "ins" /\ ~p.writes[Len(p.writes)].ok

\* overlap => pack raises;  pack raises => overlap (pack() must otherwise return the bytes)
C01_OverlapRaises(u, p) == (u.st = "done" /\ p.st \in {"done", "fail"} /\ Overlapping(u)) => p.st = "fail"
\* named deviation F5 at packet level: the refused insert touches no occupied byte
\* (F5a: its span covers the position of an empty chunk; F5b: it is itself empty)
OccupiedBefore(writes, k) ==
    UNION {writes[i].p .. (writes[i].p + Len(writes[i].s) - 1) :
              i \in {j \in 1..(k - 1) : writes[j].op = "ins" /\ writes[j].ok}}
FalseCollisionObs(p) ==
    /\ p.st = "fail" /\ LastWriteRefused(p)
    /\ LET k == Len(p.writes) w == p.writes[k] IN
          (w.p .. (w.p + Len(w.s) - 1)) \cap OccupiedBefore(p.writes, k) = {}
\* named deviation F10b: a relative move went in front of the start offset (still >= 0, so
\* the parse reads bytes before the data; on output the same move is negative and refused)
BeforeStart(start, u) ==
    \/ \E i \in 1..Len(u.reads) : u.reads[i].lo < start
    \/ \E i \in 1..Len(u.evs) : u.evs[i].e < start
C01_RaiseOnlyOnOverlap(start, u, p) ==
    (u.st = "done" /\ p.st = "fail") => (Overlapping(u) \/ FalseCollisionObs(p) \/ BeforeStart(start, u))
Dev_F5(u, p) == u.st = "done" /\ p.st = "fail" /\ ~Overlapping(u) /\ FalseCollisionObs(p)
Dev_F10b(start, u) == u.st = "done" /\ BeforeStart(start, u)

\* ------------------------------------------------------------------ C10
FieldByName(dp, cls, name) ==
    LET fs == dp[cls].fields IN fs[CHOOSE j \in 1..Len(fs) : ListedName(fs[j]) = name]

\* every described field ends, on output, at the same position relative to the start of the
\* data as it did on input (generic code: both event lists are complete)
C10_Same(dp, start, u, p) ==
    (u.st = "done" /\ p.st = "done" /\ Len(u.evs) = Len(p.evs)) =>
        \A i \in 1..Len(u.evs) :
            /\ u.evs[i].cls = p.evs[i].cls /\ u.evs[i].name = p.evs[i].name
            \* members of a bit run share one integer read with the first and written with the last
            /\ FieldByName(dp, u.evs[i].cls, u.evs[i].name).k # "Bits" => u.evs[i].e - start = p.evs[i].e

\* alignment advances by the least amount (< a) that makes the position a multiple of a,
\* relative to the declared reference point; evaluated on the events of Move pseudo-fields
C10_Least(dp, u) ==
    u.st = "done" =>
        \A i \in 1..Len(u.evs) :
            LET ev == u.evs[i]
                f == FieldByName(dp, ev.cls, ev.name) IN
            (f.k = "Move" /\ f.mv.kind = "aligned" /\ f.mv.arg.m = "const" /\ f.mv.ref \in {"begins", "current-offset"}) =>
                LET a == f.mv.arg.v
                    ref == IF f.mv.ref = "begins" THEN 0 ELSE ev.b IN
                /\ ev.e >= ev.b /\ ev.e - ev.b < a
                /\ (ev.e - ref) % a = 0

\* ------------------------------------------------------------------ C12
C12_Shape(dp, err) ==
    /\ Len(err) >= 1
    /\ \A i \in 1..Len(err) : err[i].cls \in DOMAIN dp

\* --------------------------------------------------------------- C14 / C03
\* the parse ended in a scan that bytes appended to the input could change (read-to-end field,
\* greedy regex match touching the end of the buffer)
OpenEnded(u) == \E i \in 1..Len(u.reads) : u.reads[i].open
\* two observations of the same declaration, the second with everything shifted by d
ShiftErr(err, d) == [i \in 1..Len(err) |-> [err[i] EXCEPT !.off = @ + d]]
C14_Lockstep(u1, u2, d) ==
    /\ u1.st = u2.st
    /\ u1.st = "done" => (u1.result = u2.result /\ u2.endc = u1.endc + d)
    /\ u1.st = "fail" => u2.err = ShiftErr(u1.err, d)

C03_SameU(u1, u2) ==
    /\ u1.st = u2.st
    /\ u1.st = "done" => (u1.result = u2.result /\ u1.endc = u2.endc)
C03_SameP(p1, p2) ==
    /\ p1.st = p2.st
    /\ p1.st = "done" => p1.out = p2.out
=============================================================================
