------------------------------ MODULE Bytes ------------------------------
(***************************************************************************)
(* Byte strings as Seq(0..255) with Python's slicing (clipping, negative    *)
(* indices), find-first, and the integer codec on TLC integers for the      *)
(* widths whose values fit a TLC (32-bit) integer.  Wider integers live in  *)
(* IntCodec.tla on base-256 digit sequences.                                *)
(***************************************************************************)
EXTENDS Integers, Sequences, FiniteSets, SequencesExt

Max2(a, b) == IF a >= b THEN a ELSE b
Min2(a, b) == IF a <= b THEN a ELSE b

RepeatByte(b, n) == [i \in 1..(IF n > 0 THEN n ELSE 0) |-> b]

RECURSIVE Pow(_, _)
Pow(b, e) == IF e <= 0 THEN 1 ELSE b * Pow(b, e - 1)

\* ---- Python slicing  s[a:b]  (a, b any integers)
NormIdx(i, n) == IF i < 0 THEN Max2(i + n, 0) ELSE Min2(i, n)
PySlice(s, a, b) ==
    LET n == Len(s) lo == NormIdx(a, n) hi == NormIdx(b, n)
    IN IF hi > lo THEN SubSeq(s, lo + 1, hi) ELSE <<>>
PySliceFrom(s, a) == PySlice(s, a, Len(s))
\* [lo, hi) actually touched by s[a:b]
SliceLo(s, a) == NormIdx(a, Len(s))
SliceHi(s, a, b) == Max2(NormIdx(a, Len(s)), NormIdx(b, Len(s)))

\* ---- bytes.find(needle): 0-based index of the first occurrence, -1 if none
OccursAt(hay, needle, i) ==      \* i 0-based
    /\ i + Len(needle) <= Len(hay)
    /\ \A j \in 1..Len(needle) : hay[i + j] = needle[j]
Find(hay, needle) ==
    LET S == {i \in 0..Len(hay) : OccursAt(hay, needle, i)}
    IN IF S = {} THEN -1 ELSE CHOOSE i \in S : \A j \in S : i <= j

\* ---- integer codec (big-endian digits); little endian = reversed
\* Horner form throughout: no power of 256 is ever computed, so integers WIDER than 4 bytes are handled as long as the
\* value itself fits a TLC integer (leading 00 / ff bytes)
RECURSIVE Horner(_, _)
Horner(acc, bs) == IF bs = <<>> THEN acc ELSE Horner(acc * 256 + bs[1], Tail(bs))
DecodeU(bs) == Horner(0, bs)

DecodeBE(bs, signed) ==
    IF bs = <<>> THEN 0
    ELSE Horner(IF signed /\ bs[1] >= 128 THEN bs[1] - 256 ELSE bs[1], Tail(bs))

Decode(bs, signed, big) == DecodeBE(IF big THEN bs ELSE Reverse(bs), signed)

\* value fits n bytes?  (n = 4: everything TLC can hold fits the signed range;
\* unsigned 4-byte values above 2^31-1 are outside the modelled range)
Representable(v, n, signed) ==
    IF signed THEN (n >= 4 \/ (v >= -(128 * Pow(256, n - 1)) /\ v < 128 * Pow(256, n - 1)))
    ELSE v >= 0 /\ (n >= 4 \/ v < Pow(256, n))

\* digits of v in two's complement on n bytes (floor division does the sign extension)
RECURSIVE EncodeBE(_, _)
EncodeBE(v, n) == IF n <= 0 THEN <<>> ELSE EncodeBE(v \div 256, n - 1) \o <<v % 256>>
Encode(v, n, big) == IF big THEN EncodeBE(v, n) ELSE Reverse(EncodeBE(v, n))

\* ---- bitwise operators on integers (two's complement, arbitrary sign)
RECURSIVE BitAnd(_, _), BitOr(_, _), BitXor(_, _)
BitAnd(a, b) == IF a = 0 \/ b = 0 THEN 0 ELSE IF a = -1 THEN b ELSE IF b = -1 THEN a
                ELSE 2 * BitAnd(a \div 2, b \div 2) + (a % 2) * (b % 2)
BitOr(a, b)  == IF a = 0 THEN b ELSE IF b = 0 THEN a ELSE IF a = -1 \/ b = -1 THEN -1
                ELSE 2 * BitOr(a \div 2, b \div 2) + Max2(a % 2, b % 2)
BitXor(a, b) == IF a = 0 THEN b ELSE IF b = 0 THEN a
                ELSE IF a = -1 THEN (0 - b) - 1 ELSE IF b = -1 THEN (0 - a) - 1
                ELSE 2 * BitXor(a \div 2, b \div 2) + ((a + b) % 2)
=============================================================================
