--------------------------- MODULE Fragments ---------------------------
(***************************************************************************)
(* The output buffer of bisturi (bisturi/fragments.py, class Fragments).   *)
(*                                                                         *)
(* Two descriptions side by side:                                          *)
(*   * the REFERENCE: a sparse byte array  r = [mem, extent]               *)
(*       mem    : partial function position -> byte                        *)
(*       extent : largest end position ever inserted                       *)
(*   * the IMPLEMENTED algorithm  f = [frags, begins, cur]                 *)
(*       frags  : function  begin position -> chunk   (the dict)           *)
(*       begins : sorted sequence of begin positions, WITH duplicates      *)
(*                (begin_of_fragments; list.insert never removes)          *)
(*       cur    : current_offset                                           *)
(*                                                                         *)
(* All operators are functions on these records so that Packet.tla (the    *)
(* pack machine) and the trace specifications re-use them unchanged.       *)
(* Bytes are naturals 0..255; chunks are sequences of bytes.               *)
(***************************************************************************)
EXTENDS Bytes

FILL == 46   \* b'.'

\* ------------------------------------------------------------------ helpers
\* bisect_right on a sorted sequence: number of elements <= p
BisectRight(b, p) == Cardinality({i \in 1..Len(b) : b[i] <= p})

\* Python list.insert(idx0, x) for 0 <= idx0 <= len
ListInsert(s, idx0, x) == SubSeq(s, 1, idx0) \o <<x>> \o SubSeq(s, idx0 + 1, Len(s))

\* Python indexing with a possibly negative index (only -1 arises here)
PyIndex(s, i) == IF i >= 0 THEN s[i + 1] ELSE s[Len(s) + i + 1]

\* ---------------------------------------------------------------- reference
RInit == [mem |-> <<>>, extent |-> 0]      \* <<>> is the function with empty domain

Span(p, L) == p .. (p + L - 1)

Occupied(r, p, L) == \E q \in Span(p, L) : q \in DOMAIN r.mem

\* storing a chunk in the sparse array (override on purpose: an implementation
\* that fails to raise on a real collision is then caught by NoLoss)
RStore(r, p, s) ==
    [mem    |-> [q \in (DOMAIN r.mem) \cup Span(p, Len(s)) |->
                    IF q \in Span(p, Len(s)) THEN s[q - p + 1] ELSE r.mem[q]],
     extent |-> Max2(r.extent, p + Len(s))]

RBytes(r) == [i \in 1..r.extent |-> IF (i - 1) \in DOMAIN r.mem THEN r.mem[i - 1] ELSE FILL]

\* ------------------------------------------------------------ implementation
FInit == [frags |-> <<>>, begins |-> <<>>, cur |-> 0]

\* the two neighbour tests of Fragments.insert, as written
PredecessorHit(f, p, L) ==
    LET i  == BisectRight(f.begins, p) - 1
        b1 == PyIndex(f.begins, i)              \* begins[-1] when i = -1 (Python quirk kept)
        e1 == b1 + Len(f.frags[b1])
    IN  b1 <= p /\ p < e1

SuccessorHit(f, p, L) ==
    LET i == BisectRight(f.begins, p) - 1
    IN  /\ i + 1 < Len(f.begins)
        /\ f.begins[i + 2] < p + L             \* b2 = begins[i+1] (0-based)

FCollides(f, p, L) ==
    /\ DOMAIN f.frags # {}                      \* `if self.fragments:`
    /\ (PredecessorHit(f, p, L) \/ SuccessorHit(f, p, L))

\* insert(position, string): returns [ok, f]
FInsert(f, p, s) ==
    IF FCollides(f, p, Len(s))
    THEN [ok |-> FALSE, f |-> f]
    ELSE LET i == BisectRight(f.begins, p) - 1
         IN [ok |-> TRUE,
             f  |-> [frags  |-> [q \in (DOMAIN f.frags) \cup {p} |-> IF q = p THEN s ELSE f.frags[q]],
                     begins |-> ListInsert(f.begins, i + 1, p),
                     cur    |-> p + Len(s)]]

FAppend(f, s) == FInsert(f, f.cur, s)

FSetCursor(f, v) == [f EXCEPT !.cur = v]

\* tobytes(): walk of sorted(fragments.items())
RECURSIVE WalkBytes(_, _, _, _)
WalkBytes(f, order, k, acc) ==     \* acc = [out, begin]
    IF k > Len(order) THEN acc.out
    ELSE LET off == order[k]
             s   == f.frags[off]
         IN WalkBytes(f, order, k + 1,
                      [out   |-> acc.out \o RepeatByte(FILL, off - acc.begin) \o s,
                       begin |-> off + Len(s)])

SortedKeys(f) == SetToSortSeq(DOMAIN f.frags, LAMBDA a, b : a < b)

FToBytes(f) == WalkBytes(f, SortedKeys(f), 1, [out |-> <<>>, begin |-> 0])

\* the dict as a sorted sequence of [p, s] records (exchange format with the harness)
FItems(f) == LET o == SortedKeys(f) IN [k \in 1..Len(o) |-> [p |-> o[k], s |-> f.frags[o[k]]]]

\* ------------------------------------------------- named deviations (as-is)
\* F5(a): a non-empty insert raises although no byte of its span is occupied,
\* because its span covers the begin position of an earlier EMPTY chunk.
FalseCollisionOnEmptySuccessor(f, r, p, s) ==
    /\ Len(s) > 0
    /\ ~Occupied(r, p, Len(s))
    /\ FCollides(f, p, Len(s))
    /\ \E b \in DOMAIN f.frags : Len(f.frags[b]) = 0 /\ p < b /\ b < p + Len(s)

\* F5(b): an EMPTY insert strictly inside an occupied range raises (C11 says
\* nothing about empty inserts raising; surfaces at packet level under C01).
EmptyInsertInsideOccupiedRaises(f, p, s) ==
    Len(s) = 0 /\ FCollides(f, p, 0)

\* --------------------------------------------------- structural invariants
BeginsSorted(f)  == \A i \in 1..(Len(f.begins) - 1) : f.begins[i] <= f.begins[i + 1]
BeginsMatch(f)   == {f.begins[i] : i \in 1..Len(f.begins)} = DOMAIN f.frags
\* the stored chunks are pairwise disjoint
Disjoint(f) == \A a, b \in DOMAIN f.frags :
                  a < b => a + Len(f.frags[a]) <= b

\* the implementation holds exactly the reference's bytes
MemOf(f) == [q \in UNION {Span(b, Len(f.frags[b])) : b \in DOMAIN f.frags} |->
                LET b == CHOOSE b \in DOMAIN f.frags : q \in Span(b, Len(f.frags[b]))
                IN f.frags[b][q - b + 1]]
=============================================================================
