----------------------------- MODULE MC_Context -----------------------------
(***************************************************************************)
(* C14: parsing depends only on the bytes it consumes.  Two unpack machines *)
(* in lockstep on the same declaration: one on (raw, 0), one on             *)
(* (pre \o raw \o post, Len(pre)), for every pre / post over the            *)
(* declaration's alphabet (so they contain delimiters and bytes that would  *)
(* parse differently).                                                      *)
(***************************************************************************)
EXTENDS PacketProps, Universes, Json

CONSTANTS UName, Part, NParts, MaxCtx, FullCross

VARIABLES di, dd, dp, input, pre, post, m1, m2
vars == <<di, dd, dp, input, pre, post, m1, m2>>

U == PickU(UName)
USeq == SetToSeq(U)
ASSUME Part = 0 => PrintT(<<"UNIV", ToJson(USeq)>>)

Raw2 == pre \o input \o post

Init ==
    LET us == USeq IN
    \E i \in {j \in 1..Len(us) : j % NParts = Part} :
        LET d == us[i] IN
        /\ di = i /\ dd = d /\ dp = DescribeProg(d.prog)
        /\ input \in InputsOf(d)
        /\ pre \in Strings(d.alpha, MaxCtx)
        /\ post \in Strings(d.alpha, MaxCtx)
        /\ (FullCross \/ pre = <<>> \/ post = <<>> \/ pre = post)
        /\ m1 = UInit(d.root, 0)
        /\ m2 = UInit(d.root, Len(pre))

\* lockstep: both machines are deterministic and take one step each
Next == /\ (RunningU(m1) \/ RunningU(m2))
        /\ m1' = IF RunningU(m1) THEN StepU(dp, input, m1) ELSE m1
        /\ m2' = IF RunningU(m2) THEN StepU(dp, Raw2, m2) ELSE m2
        /\ UNCHANGED <<di, dd, dp, input, pre, post>>
Spec == Init /\ [][Next]_vars

Done == ~RunningU(m1) /\ ~RunningU(m2)
O1 == UObsOf(m1)
O2 == UObsOf(m2)

\* successful parses are unchanged by context, unless the region ends in an open-ended scan
\* (named deviation F10b: the padded run moved in front of its start offset)
Inv_C14_Success ==
    (Done /\ m1.st = "done" /\ ~OpenEnded(O1) /\ ~BeforeStart(Len(pre), O2)) => C14_Lockstep(O1, O2, Len(pre))
\* with nothing appended, failures are the same failures, offsets shifted
Inv_C14_Failure ==
    (Done /\ m1.st = "fail" /\ post = <<>> /\ ~BeforeStart(Len(pre), O2)) => C14_Lockstep(O1, O2, Len(pre))
\* while both run, the cursors stay exactly Len(pre) apart (same step, same field)
Inv_C14_Cursor ==
    (RunningU(m1) /\ RunningU(m2) /\ m1.st = "run" /\ m2.st = "run" /\ ~OpenEnded(O1) /\ ~OpenEnded(O2)
       /\ ~BeforeStart(Len(pre), O2)
       /\ Len(m1.stack) = Len(m2.stack) /\ Len(m1.evs) = Len(m2.evs))
    => m2.cur = m1.cur + Len(pre)

Emit == Done =>
    PrintT(<<"EMIT", ToJson([d |-> di, raw |-> input, pre |-> pre, post |-> post,
                             u1 |-> [st |-> m1.st, cur |-> m1.cur, err |-> m1.err, result |-> m1.result,
                                     open |-> OpenEnded(O1)],
                             dev10b |-> (m2.st = "done" /\ BeforeStart(Len(pre), O2)),
                             u2 |-> [st |-> m2.st, cur |-> m2.cur, err |-> m2.err, result |-> m2.result]])>>)
=============================================================================
