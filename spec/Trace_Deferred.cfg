SPECIFICATION Spec
INVARIANT Report
