------------------------------ MODULE Packet ------------------------------
(***************************************************************************)
(* bisturi's two interpreters as small-step machines on a machine record:   *)
(*   StepU(dp, raw, m)   one step of Packet.unpack / unpack_impl and the    *)
(*                       field unpack methods (field.py, structural_fields) *)
(*   StepP(dp, p)        one step of Packet.pack / pack_impl and the field  *)
(*                       pack methods, writing into a Fragments record      *)
(* dp is a described program (Decl!DescribeProg).  The machines are         *)
(* deterministic; MC modules compose them (single run, lockstep pairs),     *)
(* trace modules conjoin them with recorded events.                         *)
(*                                                                          *)
(* unpack machine  m = [st, cur, stack, err, reads, evs, regs, result]      *)
(*   st    "run" | "unwind" | "done" | "fail"                               *)
(*   stack frames, top = last:                                              *)
(*     [kind |-> "pkt", cls, idx, pos, vals, fstart, bitsI]                 *)
(*        pos    = innermost-pkt-pos, fstart = cursor at which field idx    *)
(*        began (the loop variable of unpack_impl), bitsI = hidden integer  *)
(*        of the current bit group                                          *)
(*     [kind |-> "rep", f, left, until]   [kind |-> "opt", f]               *)
(*   reads every slice taken from raw: [lo, hi, want]                       *)
(*   evs   one event per completed described field: [cls, name, b, e]       *)
(*   regs  field-object registers written after compilation (F2):           *)
(*         sequence of [c, n, d] = delimiter remembered by field n of c     *)
(*   err   the fields_stack of the PacketError, innermost first             *)
(***************************************************************************)
EXTENDS Expr, Fragments

HostBig == FALSE      \* sys.byteorder == 'big'; the harness asserts this

Top(s) == s[Len(s)]
Pop(s) == SubSeq(s, 1, Len(s) - 1)
SetTop(s, fr) == [s EXCEPT ![Len(s)] = fr]

IsBig(f, opts) == IF f.endian = "local" THEN HostBig ELSE BigEndian(f, opts)

\* ------------------------------------------------------------- registers
GetReg(regs, c, n) ==
    LET S == {i \in 1..Len(regs) : regs[i].c = c /\ regs[i].n = n}
    IN IF S = {} THEN <<>> ELSE regs[CHOOSE i \in S : TRUE].d
SetReg(regs, c, n, d) ==
    IF \E i \in 1..Len(regs) : regs[i].c = c /\ regs[i].n = n
    THEN [i \in 1..Len(regs) |-> IF regs[i].c = c /\ regs[i].n = n THEN [c |-> c, n |-> n, d |-> d] ELSE regs[i]]
    ELSE Append(regs, [c |-> c, n |-> n, d |-> d])

\* ----------------------------------------------------- the regex library
\* Python's re.search (leftmost, first alternative, greedy) for exactly these patterns.
\* Returns [found, s, e] with 0-based start and exclusive end.
X == 88
Y == 89
NoMatch == [found |-> FALSE, s |-> 0, e |-> 0]
RunEndFrom(buf, i, b) ==    \* end of the run of byte b starting at 0-based i
    LET S == {j \in i..Len(buf) : j = Len(buf) \/ buf[j + 1] # b} IN CHOOSE j \in S : \A k \in S : j <= k
MinOf(S) == CHOOSE i \in S : \A j \in S : i <= j
RegexSearch(r, buf) ==
    CASE r = "Xplus" ->
            LET S == {i \in 0..(Len(buf) - 1) : buf[i + 1] = X} IN
            IF S = {} THEN NoMatch ELSE [found |-> TRUE, s |-> MinOf(S), e |-> RunEndFrom(buf, MinOf(S), X)]
      [] r = "crlf" ->
            LET two(i) == buf[i + 1] = 13 /\ i + 1 < Len(buf) /\ buf[i + 2] = 10
                S == {i \in 0..(Len(buf) - 1) : two(i) \/ buf[i + 1] = 10} IN
            IF S = {} THEN NoMatch
            ELSE LET i == MinOf(S) IN [found |-> TRUE, s |-> i, e |-> IF two(i) THEN i + 2 ELSE i + 1]
      [] r = "XorY" ->
            LET S == {i \in 0..(Len(buf) - 1) : buf[i + 1] \in {X, Y}} IN
            IF S = {} THEN NoMatch ELSE [found |-> TRUE, s |-> MinOf(S), e |-> MinOf(S) + 1]
      [] r = "Xplus_or_end" ->
            LET isX(i) == i < Len(buf) /\ buf[i + 1] = X
                atEnd(i) == i = Len(buf) \/ (i = Len(buf) - 1 /\ buf[Len(buf)] = 10)
                S == {i \in 0..Len(buf) : isX(i) \/ atEnd(i)}
                i == MinOf(S) IN
            [found |-> TRUE, s |-> i, e |-> IF isX(i) THEN RunEndFrom(buf, i, X) ELSE i]
      [] r = "Ystar" -> [found |-> TRUE, s |-> 0, e |-> RunEndFrom(buf, 0, Y)]
      [] r = "QnotZ" ->     \* (?<!Z)Q : a Q not preceded, INSIDE THE SEARCH BUFFER, by a Z
            LET S == {i \in 0..(Len(buf) - 1) : buf[i + 1] = 81 /\ (i = 0 \/ buf[i] # 90)} IN
            IF S = {} THEN NoMatch ELSE [found |-> TRUE, s |-> MinOf(S), e |-> MinOf(S) + 1]
      [] r = "xI" ->        \* re.compile(b'x', re.IGNORECASE): a literal text whose meaning is in the FLAGS it was compiled with
            LET S == {i \in 0..(Len(buf) - 1) : buf[i + 1] \in {88, 120}} IN
            IF S = {} THEN NoMatch ELSE [found |-> TRUE, s |-> MinOf(S), e |-> MinOf(S) + 1]
      [] r = "caretX" ->    \* ^X : only at the very start of the search buffer
            IF Len(buf) >= 1 /\ buf[1] = X THEN [found |-> TRUE, s |-> 0, e |-> 1] ELSE NoMatch
      [] OTHER -> NoMatch

\* can bytes appended after the buffer lengthen or move a match that ends at its end?
\* "dollar": the user's OWN re.compile(b'$'), an object equal to the library's EOS but not the same one (it means the same)
IsEOS(r) == r \in {"EOS", "dollar"}
RegexOpenEnded(r) == r \in {"Xplus", "Xplus_or_end", "Ystar", "crlf", "EOS", "dollar"}

\* ------------------------------------------------------------ leaf reads
\* every leaf read returns [ok, cur, v, reads, regs]
\* open: a scan whose result bytes appended to the input could change (read-to-end, greedy match at the end)
Rd(raw, a, b) == [lo |-> SliceLo(raw, a), hi |-> SliceHi(raw, a, b), want |-> b - a, window |-> FALSE, open |-> FALSE]

ReadInt(raw, cur, n, signed, big) ==
    LET chunk == PySlice(raw, cur, cur + n) IN
    [ok |-> Len(chunk) = n, cur |-> cur + n,
     v |-> IF Len(chunk) = n THEN Decode(chunk, signed, big) ELSE 0,
     reads |-> <<Rd(raw, cur, cur + n)>>]

ReadSized(raw, cur, n) ==
    LET chunk == PySlice(raw, cur, cur + n) IN
    [ok |-> Len(chunk) = n, cur |-> cur + n, v |-> chunk, reads |-> <<Rd(raw, cur, cur + n)>>]

Window(raw, cur, sbl) == IF sbl > 0 THEN PySlice(raw, cur, cur + sbl) ELSE PySliceFrom(raw, cur)
WindowRd(raw, cur, sbl) == [(IF sbl > 0 THEN Rd(raw, cur, cur + sbl) ELSE Rd(raw, cur, Max2(Len(raw), cur))) EXCEPT !.window = TRUE]

ScanMarker(raw, cur, sz, sbl) ==
    LET w == Window(raw, cur, sbl)
        at == Find(w, sz.b)
        count == IF sz.incl THEN at + Len(sz.b) ELSE at
        extra == IF ~sz.incl /\ sz.consume THEN Len(sz.b) ELSE 0
        next == cur + count
    IN IF at < 0 THEN [ok |-> FALSE, cur |-> cur, v |-> <<>>, reads |-> <<WindowRd(raw, cur, sbl)>>, delim |-> <<>>]
       ELSE [ok |-> TRUE, cur |-> next + extra, v |-> PySlice(raw, cur, next),
             reads |-> <<WindowRd(raw, cur, sbl), Rd(raw, cur, next)>>, delim |-> <<>>]

ScanRegex(raw, cur, sz, sbl) ==
    LET w == Window(raw, cur, sbl) IN
    IF IsEOS(sz.r)
    THEN LET next == cur + Max2(Len(raw) - cur, 0) IN      \* (never negative: repaired F13)
         [ok |-> TRUE, cur |-> next, v |-> PySlice(raw, cur, next),
          reads |-> <<[WindowRd(raw, cur, sbl) EXCEPT !.open = TRUE], Rd(raw, cur, next)>>, delim |-> <<>>, remember |-> FALSE]
    ELSE LET mt == RegexSearch(sz.r, w)
             count == IF sz.incl THEN mt.e ELSE mt.s
             extra == IF ~sz.incl /\ sz.consume THEN mt.e - mt.s ELSE 0
             next == cur + count
         IN IF ~mt.found
            THEN [ok |-> FALSE, cur |-> cur, v |-> <<>>, reads |-> <<WindowRd(raw, cur, sbl)>>, delim |-> <<>>, remember |-> FALSE]
            ELSE LET open == /\ sz.r \in {"Xplus", "Ystar", "Xplus_or_end"}
                             /\ cur + Len(w) >= Len(raw)
                             \* greedy match touching the end, or '$' (also matches before a final newline)
                             /\ (mt.e = Len(w) \/ (sz.r = "Xplus_or_end" /\ mt.e >= Len(w) - 1))
                 IN [ok |-> TRUE, cur |-> next + extra, v |-> PySlice(raw, cur, next),
                     reads |-> <<[WindowRd(raw, cur, sbl) EXCEPT !.open = open], Rd(raw, cur, next)>>,
                     delim |-> SubSeq(w, mt.s + 1, mt.e), remember |-> ~sz.incl]

\* ------------------------------------------------------------ positioning
PadTo(cur, start, a) == PyMod(a - PyMod(cur - start, a), a)

\* [ok, to]
MoveTarget(mv, arg, cur, pos) ==
    IF mv.kind = "aligned"
    THEN LET start == CASE mv.ref = "begins" -> 0 [] mv.ref = "current-offset" -> cur [] OTHER -> pos
         IN IF arg = 0 THEN [ok |-> FALSE, to |-> cur] ELSE [ok |-> TRUE, to |-> cur + PadTo(cur, start, arg)]
    ELSE LET to == CASE mv.kind = "shift" -> cur + arg
                     [] mv.ref = "begins" -> arg
                     [] mv.ref = "current-offset" -> cur + arg
                     [] OTHER -> pos + arg
         IN [ok |-> to >= 0, to |-> to]     \* a negative target is rejected (repaired F10)

\* the Move argument: constant, field slot, callable (a deferred expression is refused by an assertion)
MoveArg(mv, env) ==
    CASE mv.arg.m = "const" -> Ok(IntV(mv.arg.v))
      [] mv.arg.m = "field" -> IF HasVal(env.vals, mv.arg.f) THEN Ok(Lookup(env.vals, mv.arg.f)) ELSE Raise
      [] mv.arg.m = "expr" -> IF mv.arg.form = "lambda" THEN Eval(mv.arg.e, env) ELSE Raise
      [] OTHER -> Raise

ElemAlign(f, opts) == IF f.aligned > 0 THEN f.aligned ELSE IF opts.align > 0 THEN opts.align ELSE 1

\* ------------------------------------------------- callables that serialise
\* the packet values a callable can reach from the values it is given (nested in lists / packets)
RECURSIVE PktsIn(_)
PktsIn(v) ==
    CASE v.t = "pkt" -> {v} \cup UNION {PktsIn(v.vals[i].v) : i \in 1..Len(v.vals)}
      [] v.t = "list" -> UNION {PktsIn(v.l[i]) : i \in 1..Len(v.l)}
      [] OTHER -> {}
PktsOf(vals) == UNION {PktsIn(vals[i].v) : i \in 1..Len(vals)}
\* outcome of x.pack() for a packet value x: its own pack machine run to completion on a FRESH buffer (defined below)
RECURSIVE PackLenOf(_, _)
\* a function TLC builds lazily: nothing is packed unless an expression asks for it
PLen(dp, vals, root) == [x \in PktsOf(vals) \cup PktsOf(root) |-> PackLenOf(dp, x)]

\* ============================================================ UNPACK MACHINE
PktFrame(cls, pos) == [kind |-> "pkt", cls |-> cls, idx |-> 1, pos |-> pos, vals |-> <<>>,
                       fstart |-> pos, bitsI |-> 0]

UInit(root, start) ==
    [st |-> "run", cur |-> start, stack |-> <<PktFrame(root, start)>>, err |-> <<>>,
     reads |-> <<>>, evs |-> <<>>, regs |-> <<>>, result |-> NoneV, hookname |-> ""]

OwnerIdx(stack) == CHOOSE i \in 1..Len(stack) :
                      stack[i].kind = "pkt" /\ \A j \in (i + 1)..Len(stack) : stack[j].kind # "pkt"
Owner(stack) == stack[OwnerIdx(stack)]
EnvU(dp, raw, m) == [vals |-> Owner(m.stack).vals, raw |-> raw, cur |-> m.cur, root |-> m.stack[1].vals, ipos |-> Owner(m.stack).pos,
                     plen |-> PLen(dp, Owner(m.stack).vals, m.stack[1].vals)]
CurFieldOf(dp, fr) == dp[fr.cls].fields[fr.idx]

\* the name under which a field is listed (a described field is listed under its hidden name)
ListedName(f) == IF f.k = "Int" /\ f.desc.kind # "none" THEN "_described_" \o f.name ELSE f.name

FailU(m) == [m EXCEPT !.st = "unwind"]

\* after-unpack hooks (descriptor kind "verify": the parsed value must equal the computed one, else the hook raises)
RECURSIVE AfterUnpackHooks(_, _, _, _)
AfterUnpackHooks(dp, fs, i, vals) ==       \* [ok, name]
    IF i > Len(fs) THEN [ok |-> TRUE, name |-> ""]
    ELSE IF fs[i].k = "Int" /\ fs[i].desc.kind \in {"verify", "check"}
         THEN LET r == Eval(fs[i].desc.e, [vals |-> vals, raw |-> <<>>, cur |-> 0, root |-> <<>>, ipos |-> 0, plen |-> PLen(dp, vals, <<>>)]) IN
              IF r.ok /\ HasVal(vals, fs[i].name) /\ r.v = Lookup(vals, fs[i].name)
              THEN AfterUnpackHooks(dp, fs, i + 1, vals)
              ELSE [ok |-> FALSE, name |-> ListedName(fs[i])]
         ELSE AfterUnpackHooks(dp, fs, i + 1, vals)

\* one frame per step, innermost first; only packet frames contribute an entry
\* (a frame whose after-unpack hook failed is past its last field: the entry names the described field)
UnwindU(dp, m) ==
    LET fr == Top(m.stack)
        e  == IF fr.kind = "pkt"
              THEN IF fr.idx > Len(dp[fr.cls].fields)
                   THEN Append(m.err, [off |-> m.cur, name |-> m.hookname, cls |-> fr.cls])
                   ELSE Append(m.err, [off |-> fr.fstart, name |-> ListedName(CurFieldOf(dp, fr)), cls |-> fr.cls])
              ELSE m.err
    IN [m EXCEPT !.stack = Pop(m.stack), !.err = e,
                 !.st = IF Len(m.stack) = 1 THEN "fail" ELSE "unwind"]

\* the owner packet frame finished its current field (value already stored)
Advance(fr, cur) == [fr EXCEPT !.idx = @ + 1, !.fstart = cur]
Event(dp, fr, cur) == [cls |-> fr.cls, name |-> ListedName(CurFieldOf(dp, fr)), b |-> fr.fstart, e |-> cur]

CondTruth(spec, env) ==      \* [ok, b]
    LET r == EvalSpec(spec, env) IN [ok |-> r.ok, b |-> r.ok /\ Truth(r.v)]

RECURSIVE Deliver(_, _, _, _)
\* a finished leaf or sub-frame hands its value to the frame on top of the stack
Deliver(dp, raw, m, val) ==
    LET fr == Top(m.stack) IN
    CASE fr.kind = "pkt" ->
            LET f == CurFieldOf(dp, fr)
                fr2 == Advance([fr EXCEPT !.vals = SetVal(@, f.name, val)], m.cur)
            IN [m EXCEPT !.stack = SetTop(@, fr2), !.evs = Append(@, Event(dp, fr, m.cur))]
      [] fr.kind = "opt" -> Deliver(dp, raw, [m EXCEPT !.stack = Pop(@)], val)
      [] OTHER ->      \* "rep": append to the list stored in the owner's slot
            LET oi == Len(m.stack) - 1
                ow == m.stack[oi]
                items == Lookup(ow.vals, fr.f.name).l \o <<val>>
                ow2 == [ow EXCEPT !.vals = SetVal(@, fr.f.name, ListV(items))]
                st2 == [m.stack EXCEPT ![oi] = ow2]
                m2 == [m EXCEPT !.stack = st2]
            IN IF fr.until
               THEN LET c == CondTruth(fr.f.until, EnvU(dp, raw, m2)) IN
                    IF ~c.ok THEN FailU(m2)
                    ELSE [m2 EXCEPT !.stack = SetTop(@, [fr EXCEPT !.left = IF c.b THEN 0 ELSE 1])]
               ELSE [m2 EXCEPT !.stack = SetTop(@, [fr EXCEPT !.left = @ - 1])]

WithReads(m, rs) == [m EXCEPT !.reads = @ \o rs]

RECURSIVE ExecValueField(_, _, _, _)
\* Int, Data, Ref, RefSel: the kinds that can stand anywhere (field, element, selected)
ExecValueField(dp, raw, m, f) ==
    LET ow == Owner(m.stack)
        opts == dp[ow.cls].opts
        env == EnvU(dp, raw, m)
    IN
    CASE f.k = "Int" ->
            LET r == ReadInt(raw, m.cur, f.n, f.signed, IsBig(f, opts)) IN
            IF r.ok THEN Deliver(dp, raw, WithReads([m EXCEPT !.cur = r.cur], r.reads), IntV(r.v))
            ELSE FailU(WithReads(m, r.reads))
      [] f.k = "Data" ->
            IF f.size.m \in {"const", "field", "expr"}
            THEN LET n == EvalSpec(f.size, env) IN
                 IF ~n.ok \/ n.v.t # "int" THEN FailU(m)
                 ELSE LET r == ReadSized(raw, m.cur, n.v.i) IN
                      IF r.ok THEN Deliver(dp, raw, WithReads([m EXCEPT !.cur = r.cur], r.reads), BytesV(r.v))
                      ELSE FailU(WithReads(m, r.reads))
            ELSE IF f.size.m = "marker"
            THEN LET r == ScanMarker(raw, m.cur, f.size, opts.sbl) IN
                 IF r.ok THEN Deliver(dp, raw, WithReads([m EXCEPT !.cur = r.cur], r.reads), BytesV(r.v))
                 ELSE FailU(WithReads(m, r.reads))
            ELSE LET r == ScanRegex(raw, m.cur, f.size, opts.sbl) IN
                 IF r.ok
                 THEN LET m2 == [m EXCEPT !.cur = r.cur,
                                          !.regs = IF r.remember THEN SetReg(@, ow.cls, f.name, r.delim) ELSE @]
                      IN Deliver(dp, raw, WithReads(m2, r.reads), BytesV(r.v))
                 ELSE FailU(WithReads(m, r.reads))
      [] f.k = "Ref" -> [m EXCEPT !.stack = Append(@, PktFrame(f.cls, m.cur))]
      [] f.k = "RefSel" ->
            LET key == Eval(f.key, env) IN
            IF ~key.ok THEN FailU(m)
            ELSE LET hits == {i \in 1..Len(f.alts) : IntV(f.alts[i].key) = key.v} IN
                 IF hits = {} THEN FailU(m)
                 ELSE LET alt == f.alts[CHOOSE i \in hits : TRUE].alt IN
                      ExecValueField(dp, raw, m, [alt EXCEPT !.name = f.name])
      [] OTHER -> FailU(m)

\* a field of a packet frame
ExecField(dp, raw, m) ==
    LET fr == Top(m.stack)
        fs == dp[fr.cls].fields
        f == fs[fr.idx]
        opts == dp[fr.cls].opts
        env == EnvU(dp, raw, m)
    IN
    CASE f.k \in {"Int", "Data", "Ref", "RefSel"} -> ExecValueField(dp, raw, m, f)
      [] f.k \in {"Em", "Emb"} ->      \* (an embedding reference is a no-op: its fields follow as fields of this class)
            [m EXCEPT !.stack = SetTop(@, Advance(fr, m.cur)), !.evs = Append(@, Event(dp, fr, m.cur))]
      [] f.k = "Move" ->
            LET a == MoveArg(f.mv, env) IN
            IF ~a.ok \/ a.v.t # "int" THEN FailU(m)
            ELSE LET t == MoveTarget(f.mv, a.v.i, m.cur, fr.pos) IN
                 IF ~t.ok THEN FailU(m)
                 ELSE [m EXCEPT !.cur = t.to, !.stack = SetTop(@, Advance(fr, t.to)),
                                !.evs = Append(@, Event(dp, fr, t.to))]
      [] f.k = "Bits" ->
            LET first == BitsFirst(fs, fr.idx)
                nb == RunBits(fs, fr.idx) \div 8
                r == IF first THEN ReadInt(raw, m.cur, nb, FALSE, TRUE)
                     ELSE [ok |-> TRUE, cur |-> m.cur, v |-> fr.bitsI, reads |-> <<>>]
                val == (r.v \div Pow(2, ShiftOf(fs, fr.idx))) % Pow(2, f.w)
            IN IF ~r.ok THEN FailU(WithReads(m, r.reads))
               ELSE LET fr2 == Advance([fr EXCEPT !.bitsI = r.v, !.vals = SetVal(@, f.name, IntV(val))], r.cur)
                    IN [WithReads(m, r.reads) EXCEPT !.cur = r.cur, !.stack = SetTop(@, fr2),
                                                     !.evs = Append(@, Event(dp, fr, r.cur))]
      [] f.k = "Rep" ->
            LET fr1 == [fr EXCEPT !.vals = SetVal(@, f.name, ListV(<<>>))]
                m1 == [m EXCEPT !.stack = SetTop(@, fr1)]
                cnt == IF f.count.m = "none" THEN Ok(IntV(1)) ELSE EvalSpec(f.count, EnvU(dp, raw, m1))
            IN IF ~cnt.ok \/ cnt.v.t # "int" THEN FailU(m1)
               ELSE LET skipByCount == f.when.m # "none" /\ cnt.v.i <= 0
                        w == IF f.when.m = "none" \/ skipByCount THEN [ok |-> TRUE, b |-> TRUE]
                             ELSE CondTruth(f.when, EnvU(dp, raw, m1))
                    IN IF ~w.ok THEN FailU(m1)
                       ELSE IF skipByCount \/ ~w.b
                       THEN [m1 EXCEPT !.stack = SetTop(@, Advance(fr1, m.cur)),
                                       !.evs = Append(@, Event(dp, fr, m.cur))]
                       ELSE [m1 EXCEPT !.stack = Append(@, [kind |-> "rep", f |-> f, left |-> cnt.v.i,
                                                            until |-> f.count.m = "none"])]
      [] f.k = "Opt" ->
            LET w == CondTruth(f.when, env) IN
            IF ~w.ok THEN FailU(m)
            ELSE IF ~w.b THEN Deliver(dp, raw, m, NoneV)
            ELSE [m EXCEPT !.stack = Append(@, [kind |-> "opt", f |-> f])]
      [] OTHER -> FailU(m)

StepU(dp, raw, m) ==
    LET fr == Top(m.stack) IN
    CASE m.st = "unwind" -> UnwindU(dp, m)
      [] fr.kind = "pkt" ->
            IF fr.idx <= Len(dp[fr.cls].fields) THEN ExecField(dp, raw, m)
            ELSE LET h == AfterUnpackHooks(dp, dp[fr.cls].fields, 1, fr.vals) IN      \* sync_after_unpack of the descriptors
                 IF ~h.ok THEN FailU([m EXCEPT !.hookname = h.name])
                 ELSE IF Len(m.stack) = 1
                 THEN [m EXCEPT !.st = "done", !.result = PktV(fr.cls, fr.vals), !.stack = <<>>]
                 ELSE Deliver(dp, raw, [m EXCEPT !.stack = Pop(@)], PktV(fr.cls, fr.vals))
      [] fr.kind = "rep" ->
            IF fr.left <= 0
            THEN LET ow == m.stack[Len(m.stack) - 1]
                 IN [m EXCEPT !.stack = SetTop(Pop(@), Advance(ow, m.cur)), !.evs = Append(@, Event(dp, ow, m.cur))]
            ELSE LET al == ElemAlign(fr.f, dp[Owner(m.stack).cls].opts)
                     c2 == m.cur + PadTo(m.cur, 0, al)
                 IN ExecValueField(dp, raw, [m EXCEPT !.cur = c2], [fr.f.elem EXCEPT !.name = fr.f.name])
      [] OTHER -> ExecValueField(dp, raw, m, [fr.f.elem EXCEPT !.name = fr.f.name])

RunningU(m) == m.st \in {"run", "unwind"}

\* ============================================================== PACK MACHINE
\* p = [st, frag, stack, err, writes, evs, regs, out]
\* frames: [kind |-> "pkt", cls, idx, pos, vals, bitsI, fstart]  [kind |-> "rep", f, items, i]
\* writes: every Fragments call: [op |-> "ins", p, s, ok] | [op |-> "cur", p]

\* sync_before_pack of the descriptors: hidden slot := what the attribute reads as.
\* explicit = names whose descriptor was disabled by an assignment (top-level packet only)
DescRead(dp, f, vals, explicit) ==       \* [ok, v]
    IF f.name \in explicit \/ f.desc.kind = "check" THEN Ok(Lookup(vals, f.name))      \* ("check": a plain slot with an after-unpack hook)
    ELSE IF f.desc.kind \in {"autolen", "bounded"}
         THEN LET t == IF HasVal(vals, f.desc.of) THEN Lookup(vals, f.desc.of) ELSE NoneV IN
              IF t.t \in {"bytes", "list"} THEN Ok(IntV(Len(PL(t)))) ELSE Raise
         ELSE Eval(f.desc.e, [vals |-> vals, raw |-> <<>>, cur |-> 0, root |-> <<>>, ipos |-> 0, plen |-> PLen(dp, vals, <<>>)])

RECURSIVE SyncVals(_, _, _, _, _)
SyncVals(dp, fs, i, vals, explicit) ==      \* [ok, vals, name]
    IF i > Len(fs) THEN [ok |-> TRUE, vals |-> vals, name |-> ""]
    ELSE IF fs[i].k = "Int" /\ fs[i].desc.kind \notin {"none", "check"}      \* ("check" brings no before-pack hook)
         THEN LET r == DescRead(dp, fs[i], vals, explicit) IN
              \* ("bounded": a user's subclass of AutoLength whose OWN before-pack hook refuses lengths above its limit)
              IF ~r.ok \/ (fs[i].desc.kind = "bounded" /\ r.v.t = "int" /\ r.v.i > fs[i].desc.limit)
              THEN [ok |-> FALSE, vals |-> vals, name |-> ListedName(fs[i])]
              ELSE SyncVals(dp, fs, i + 1, SetVal(vals, fs[i].name, r.v), explicit)
         ELSE SyncVals(dp, fs, i + 1, vals, explicit)

\* exp: the packet was built from keyword arguments (its descriptors were assigned explicitly)
\* exp: which described fields of this packet were ASSIGNED (their descriptors are switched off): all of them, or the named ones
NoExp == [all |-> FALSE, names |-> {}]
PFrame(cls, vals, pos) == [kind |-> "pkt", cls |-> cls, idx |-> 1, pos |-> pos, vals |-> vals, bitsI |-> 0, exp |-> NoExp]
\* a nested packet is explicit iff it was handed over in the root's keywords, or lives inside an explicit packet
\* a nested packet of a PARSED packet has nothing assigned; one handed over in keywords (or living inside such a packet)
\* was built with every field as a keyword; a declared default of a plain reference is a clone of the prototype
\* Sub(over): exactly the keywords of `over` were assigned; any other declared default value was built with every field
ChildFrame(dp, p, f, v) ==
    LET ow == Owner(p.stack)
        decl == CurFieldOf(dp, ow)
        fromKw == IF OwnerIdx(p.stack) = 1 THEN f.name \in p.knames ELSE ow.exp.all
        e == IF ~p.nexp THEN NoExp
             ELSE IF fromKw THEN [all |-> TRUE, names |-> {}]
             ELSE IF decl.k = "Ref" THEN [all |-> FALSE, names |-> {decl.over[j].n : j \in 1..Len(decl.over)}]
             ELSE [all |-> TRUE, names |-> {}]
    IN [PFrame(v.cls, v.vals, 0) EXCEPT !.exp = e]

PInit0(root, vals, regs) ==
    [st |-> "enter", frag |-> FInit, stack |-> <<PFrame(root, vals, 0)>>, err |-> <<>>,
     writes |-> <<>>, evs |-> <<>>, regs |-> regs, out |-> <<>>, explicit |-> {}, hookname |-> "", nexp |-> FALSE, knames |-> {}]

FailP(p) == [p EXCEPT !.st = "unwind"]

UnwindP(dp, p) ==
    LET fr == Top(p.stack)
        e  == IF fr.kind = "pkt"
              THEN Append(p.err, [off |-> p.frag.cur,
                                  name |-> IF p.hookname # "" /\ Len(p.err) = 0 THEN p.hookname
                                           ELSE IF fr.idx <= Len(dp[fr.cls].fields) THEN ListedName(CurFieldOf(dp, fr)) ELSE "?",
                                  cls |-> fr.cls])
              ELSE p.err
    IN [p EXCEPT !.stack = Pop(p.stack), !.err = e, !.st = IF Len(p.stack) = 1 THEN "fail" ELSE "unwind"]

EnvP(dp, p) == [vals |-> Owner(p.stack).vals, raw |-> <<>>, cur |-> p.frag.cur, root |-> p.stack[1].vals, ipos |-> Owner(p.stack).pos,
                plen |-> PLen(dp, Owner(p.stack).vals, p.stack[1].vals)]

\* fragments.append(bytes): [ok, p]
PAppend(p, s) ==
    LET r == FAppend(p.frag, s) IN
    [ok |-> r.ok,
     p |-> [p EXCEPT !.frag = r.f,
                    !.writes = Append(@, [op |-> "ins", p |-> p.frag.cur, s |-> s, ok |-> r.ok])]]
PSetCur(p, v) == [p EXCEPT !.frag = FSetCursor(@, v), !.writes = Append(@, [op |-> "cur", p |-> v])]

\* the frame on top finished one unit of work (a field of a packet frame, an element of a rep frame)
PDone(dp, p) ==
    LET fr == Top(p.stack) IN
    IF fr.kind = "pkt"
    THEN [p EXCEPT !.stack = SetTop(@, [fr EXCEPT !.idx = @ + 1]),
                   !.evs = Append(@, [cls |-> fr.cls, name |-> ListedName(CurFieldOf(dp, fr)), e |-> p.frag.cur])]
    ELSE [p EXCEPT !.stack = SetTop(@, [fr EXCEPT !.i = @ + 1])]

RECURSIVE PackValue(_, _, _, _)
\* pack value v as field f (Int, Data, Ref, RefSel) in the context of the top frame
PackValue(dp, p, f, v) ==
    LET ow == Owner(p.stack)
        opts == dp[ow.cls].opts
    IN
    CASE f.k = "Int" ->
            IF v.t # "int" \/ ~Representable(v.i, f.n, f.signed) THEN FailP(p)
            ELSE LET r == PAppend(p, Encode(v.i, f.n, IsBig(f, opts))) IN
                 IF r.ok THEN PDone(dp, r.p) ELSE FailP(r.p)
      [] f.k = "Data" ->
            IF v.t # "bytes" THEN FailP(p)
            ELSE LET d == CASE f.size.m = "marker" -> IF f.size.incl THEN <<>> ELSE f.size.b
                            [] f.size.m = "regex" -> IF f.size.incl THEN <<>> ELSE GetReg(p.regs, ow.cls, f.name)
                            [] OTHER -> <<>>
                     r == PAppend(p, v.b \o d)
                 IN IF r.ok THEN PDone(dp, r.p) ELSE FailP(r.p)
      [] f.k = "Ref" ->
            IF v.t # "pkt" THEN FailP(p)
            ELSE [p EXCEPT !.st = "enter", !.stack = Append(@, ChildFrame(dp, p, f, v))]
      [] f.k = "RefSel" ->
            IF v.t = "pkt" THEN [p EXCEPT !.st = "enter", !.stack = Append(@, ChildFrame(dp, p, f, v))]
            ELSE LET key == Eval(f.key, EnvP(dp, p)) IN
                 IF ~key.ok THEN FailP(p)
                 ELSE LET hits == {i \in 1..Len(f.alts) : IntV(f.alts[i].key) = key.v} IN
                      IF hits = {} THEN FailP(p)
                      ELSE LET alt == f.alts[CHOOSE i \in hits : TRUE].alt IN
                           IF alt.k = "Ref" THEN FailP(p)     \* NotImplementedError: dead end
                           ELSE PackValue(dp, p, [alt EXCEPT !.name = f.name], v)
      [] OTHER -> FailP(p)

PackField(dp, p) ==
    LET fr == Top(p.stack)
        fs == dp[fr.cls].fields
        f == fs[fr.idx]
        env == EnvP(dp, p)
        has == HasVal(fr.vals, f.name)
    IN
    CASE f.k \in {"Int", "Data", "Ref", "RefSel"} ->
            IF ~has THEN FailP(p) ELSE PackValue(dp, p, f, Lookup(fr.vals, f.name))
      [] f.k = "Em" ->
            LET r == PAppend(p, <<>>) IN IF r.ok THEN PDone(dp, r.p) ELSE FailP(r.p)
      [] f.k = "Emb" -> PDone(dp, p)
      [] f.k = "Move" ->
            LET a == MoveArg(f.mv, env) IN
            IF ~a.ok \/ a.v.t # "int" THEN FailP(p)
            ELSE LET t == MoveTarget(f.mv, a.v.i, p.frag.cur, fr.pos) IN
                 IF ~t.ok THEN FailP(p) ELSE PDone(dp, PSetCur(p, t.to))
      [] f.k = "Bits" ->
            IF ~has \/ Lookup(fr.vals, f.name).t # "int" THEN FailP(p)
            ELSE LET v == Lookup(fr.vals, f.name).i
                     sh == Pow(2, ShiftOf(fs, fr.idx))
                     wd == Pow(2, f.w)
                     old == (fr.bitsI \div sh) % wd
                     I2 == fr.bitsI - old * sh + (v % wd) * sh
                     p2 == [p EXCEPT !.stack = SetTop(@, [fr EXCEPT !.bitsI = I2])]
                 IN IF BitsLast(fs, fr.idx)
                    THEN LET r == PAppend(p2, EncodeBE(I2, RunBits(fs, fr.idx) \div 8)) IN
                         IF r.ok THEN PDone(dp, r.p) ELSE FailP(r.p)
                    ELSE PDone(dp, p2)
      [] f.k = "Rep" ->
            IF ~has \/ Lookup(fr.vals, f.name).t # "list" THEN FailP(p)
            ELSE [p EXCEPT !.stack = Append(@, [kind |-> "rep", f |-> f, items |-> Lookup(fr.vals, f.name).l, i |-> 1])]
      [] f.k = "Opt" ->
            IF ~has THEN FailP(p)
            ELSE LET v == Lookup(fr.vals, f.name) IN
                 IF v.t = "none" THEN PDone(dp, p)
                 ELSE PackValue(dp, p, [f.elem EXCEPT !.name = f.name], v)
      [] OTHER -> FailP(p)

StepP(dp, p) ==
    LET fr == Top(p.stack) IN
    CASE p.st = "unwind" -> UnwindP(dp, p)
      [] p.st = "enter" ->       \* pack_impl prologue: descriptor sync, innermost-pkt-pos
            \* whose descriptors were disabled by an assignment: the root's explicit set; for nested packets none when they
            \* came from a parse, all when they were built from keyword arguments (p.nexp)
            LET allDesc == {dp[fr.cls].fields[i].name : i \in {j \in 1..Len(dp[fr.cls].fields) :
                                dp[fr.cls].fields[j].k = "Int" /\ dp[fr.cls].fields[j].desc.kind # "none"}}
                s == SyncVals(dp, dp[fr.cls].fields, 1, fr.vals,
                              IF Len(p.stack) = 1 THEN p.explicit ELSE IF fr.exp.all THEN allDesc ELSE fr.exp.names \cap allDesc) IN
            IF ~s.ok THEN FailP([p EXCEPT !.st = "run", !.hookname = s.name])
            ELSE [p EXCEPT !.st = "run",
                           !.stack = SetTop(@, [fr EXCEPT !.vals = s.vals, !.pos = p.frag.cur,
                                                          !.bitsI = IF Len(p.stack) = 1 THEN fr.bitsI ELSE 0])]
      [] fr.kind = "pkt" ->
            IF fr.idx <= Len(dp[fr.cls].fields) THEN PackField(dp, p)
            ELSE IF Len(p.stack) = 1
                 THEN [p EXCEPT !.st = "done", !.out = FToBytes(p.frag), !.stack = <<>>]
                 ELSE PDone(dp, [p EXCEPT !.stack = Pop(@)])
      [] OTHER ->          \* rep frame
            IF fr.i > Len(fr.items) THEN PDone(dp, [p EXCEPT !.stack = Pop(@)])
            ELSE LET al == ElemAlign(fr.f, dp[Owner(p.stack).cls].opts)
                     c2 == p.frag.cur + PadTo(p.frag.cur, 0, al)
                 IN PackValue(dp, PSetCur(p, c2), [fr.f.elem EXCEPT !.name = fr.f.name], fr.items[fr.i])

RunningP(p) == p.st \in {"enter", "run", "unwind"}

\* x.pack() called from inside a callable: a pack machine of its own, on a fresh buffer, run to completion
RECURSIVE RunPFresh(_, _, _)
RunPFresh(dp, p, fuel) == IF ~RunningP(p) \/ fuel = 0 THEN p ELSE RunPFresh(dp, StepP(dp, p), fuel - 1)
PackLenOf(dp, x) ==
    LET p == RunPFresh(dp, PInit0(x.cls, x.vals, <<>>), 500) IN
    IF p.st = "done" THEN Ok(IntV(Len(p.out))) ELSE Raise
=============================================================================
