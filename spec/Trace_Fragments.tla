--------------------------- MODULE Trace_Fragments ---------------------------
(***************************************************************************)
(* Trace validation for Fragments: every recorded execution of the real     *)
(* class must be a behaviour of Fragments.tla.  A batch of traces is read   *)
(* from IOEnv.TRACE_FILE (JSON: array of traces; a trace is an array of     *)
(* events {op, p, s, raised, cur, out}); `tid` selects one in Init, so one  *)
(* TLC start validates the whole batch.  The invariants of MC_Fragments are *)
(* re-evaluated at every state of every real execution.                     *)
(***************************************************************************)
EXTENDS Fragments, TLC, Json, IOUtils

Traces == JsonDeserialize(IOEnv.TRACE_FILE)

VARIABLES tid, l, f, r, last
vars == <<tid, l, f, r, last>>

NoOp == [op |-> "none", p |-> 0, s |-> <<>>, raised |-> FALSE, occupied |-> FALSE, falsecol |-> FALSE]

Init == tid \in 1..Len(Traces) /\ l = 1 /\ f = FInit /\ r = RInit /\ last = NoOp

Ev == Traces[tid][l]

\* the spec action for a logged insert/append, conjoined with the logged fields
TraceInsert ==
    /\ Ev.op \in {"insert", "append"}
    /\ (Ev.op = "append" => Ev.p = f.cur)
    /\ LET res == FInsert(f, Ev.p, Ev.s)
           dev == FalseCollisionOnEmptySuccessor(f, r, Ev.p, Ev.s)
       IN IF dev /\ ~Ev.raised
          THEN \* named deviation F5(a) not exhibited by the code (repaired): the model
               \* has no successor state for the repaired algorithm; accept the prefix.
               /\ l' = Len(Traces[tid]) + 1
               /\ UNCHANGED <<f, r, last, tid>>
          ELSE /\ Ev.raised = ~res.ok
               /\ f' = res.f
               /\ r' = IF res.ok THEN RStore(r, Ev.p, Ev.s) ELSE r
               /\ last' = [op |-> Ev.op, p |-> Ev.p, s |-> Ev.s, raised |-> ~res.ok,
                           occupied |-> Occupied(r, Ev.p, Len(Ev.s)), falsecol |-> dev]
               /\ f'.cur = Ev.cur
               /\ (("chk" \notin DOMAIN Ev \/ Ev.chk) => FToBytes(f') = Ev.out)      \* (long histories log the string at checkpoints only)
               /\ l' = l + 1 /\ UNCHANGED tid

TraceSetCursor ==
    /\ Ev.op = "setcur"
    /\ f' = FSetCursor(f, Ev.p) /\ r' = r
    /\ last' = [NoOp EXCEPT !.op = "setcur", !.p = Ev.p]
    /\ f'.cur = Ev.cur /\ (("chk" \notin DOMAIN Ev \/ Ev.chk) => FToBytes(f') = Ev.out)
    /\ l' = l + 1 /\ UNCHANGED tid

Next == l <= Len(Traces[tid]) /\ (TraceInsert \/ TraceSetCursor)

Spec == Init /\ [][Next]_vars

IsInsert(o) == o.op \in {"insert", "append"}
Inv_C11_RaiseExact ==
    (IsInsert(last) /\ Len(last.s) > 0) => ((last.raised <=> last.occupied) \/ last.falsecol)
Inv_C11_Cursor == (IsInsert(last) /\ ~last.raised) => f.cur = last.p + Len(last.s)
Inv_C11_Mem == MemOf(f) = r.mem
Inv_C11_ToBytes == FToBytes(f) = RBytes(r)
Prop_C11_NoLoss == [][\A q \in DOMAIN r.mem : q \in DOMAIN r'.mem /\ r'.mem[q] = r.mem[q]]_vars

Accept == (l = Len(Traces[tid]) + 1) => PrintT(<<"ACCEPT", tid>>)
\* longest matched prefix, for reporting a rejection
Progress == PrintT(<<"NOTE", tid, l>>)
=============================================================================
