----------------------------- MODULE MC_Threads -----------------------------
(***************************************************************************)
(* C13, thread half: two threads, each parsing and then serialising ITS OWN *)
(* packet of the same class, interleaved at the grain of the machines'      *)
(* steps (one described field per step).  The only state the threads share  *)
(* is the field-object registers (Packet.tla: m.regs / p.regs); everything  *)
(* else is per packet, so every other step commutes.  TLC explores every    *)
(* interleaving; Inv_C13_Threads: each thread gets back its own bytes -     *)
(* unless the registers it relies on were rewritten by the other thread in  *)
(* between (named deviation F2).  With the history variable every complete  *)
(* schedule is exported and forced on real threads at field boundaries.     *)
(***************************************************************************)
EXTENDS Session, SessionUniverses, Json

CONSTANTS Prog, KeepHist

VARIABLES th, regs, hist
vars == <<th, regs, hist>>

P == IF Prog = "regex" THEN ThreadRegex ELSE IF Prog = "bits" THEN ThreadBits ELSE ThreadPlain
DP == DescribeProg(P.prog)
T == {1, 2}
Raw(i) == P.raws[i]

\* a thread: phase "u" (unpacking), "p" (packing), "end"
T0(i) == [ph |-> "u", m |-> UInit("C0", 0), p |-> [st |-> "none"], out |-> <<>>, ok |-> TRUE, seen |-> <<>>]

Init == th = [i \in T |-> T0(i)] /\ regs = <<>> /\ hist = <<>>

\* is the step the machine is about to take the execution of a described field of the root packet?
FieldStepU(m) == m.st = "run" /\ Len(m.stack) = 1 /\ m.stack[1].idx <= Len(DP["C0"].fields)
FieldStepP(p) == p.st = "run" /\ Len(p.stack) = 1 /\ p.stack[1].idx <= Len(DP["C0"].fields)

Log(i, kind) == hist' = IF KeepHist THEN Append(hist, [t |-> i, k |-> kind]) ELSE hist

StepT(i) ==
    LET t == th[i] IN
    \/ /\ t.ph = "u" /\ RunningU(t.m)
       /\ LET m2 == StepU(DP, Raw(i), [t.m EXCEPT !.regs = regs]) IN
          /\ th' = [th EXCEPT ![i].m = m2]
          /\ regs' = m2.regs
          /\ Log(i, IF FieldStepU(t.m) THEN "field" ELSE "silent")
    \/ /\ t.ph = "u" /\ ~RunningU(t.m)
       /\ IF t.m.st = "done"
          THEN th' = [th EXCEPT ![i].ph = "p", ![i].p = PInit0("C0", t.m.result.vals, regs), ![i].seen = regs]
          ELSE th' = [th EXCEPT ![i].ph = "end", ![i].ok = FALSE]
       /\ UNCHANGED regs /\ Log(i, "silent")
    \/ /\ t.ph = "p" /\ RunningP(t.p)
       /\ th' = [th EXCEPT ![i].p = StepP(DP, [t.p EXCEPT !.regs = regs])]
       /\ UNCHANGED regs
       /\ Log(i, IF FieldStepP(t.p) THEN "field" ELSE "silent")
    \/ /\ t.ph = "p" /\ ~RunningP(t.p)
       /\ th' = [th EXCEPT ![i].ph = "end", ![i].out = t.p.out, ![i].ok = t.p.st = "done"]
       /\ UNCHANGED regs /\ Log(i, "silent")

Next == \E i \in T : th[i].ph # "end" /\ StepT(i)
Spec == Init /\ [][Next]_vars

AllEnded == \A i \in T : th[i].ph = "end"
\* the registers this thread's parse left behind were still in place when it serialised
Undisturbed(i) == th[i].seen = regs \/ th[i].ph # "end"
Inv_C13_Threads == AllEnded => \A i \in T : (th[i].ok /\ th[i].out = Raw(i)) \/ P.f2
Inv_C13_ThreadsPlain == (AllEnded /\ ~P.f2) => \A i \in T : th[i].ok /\ th[i].out = Raw(i)

Emit == (KeepHist /\ AllEnded) =>
    PrintT(<<"EMIT", ToJson([prog |-> Prog, decl |-> P.prog, raws |-> P.raws, f2 |-> P.f2, sched |-> hist,
                             outs |-> [i \in T |-> [ok |-> th[i].ok, out |-> th[i].out]]])>>)
=============================================================================
