SPECIFICATION Spec
INVARIANT Report
