------------------------------ MODULE Regexp ------------------------------
(***************************************************************************)
(* C18: the regular expression derived from a pattern packet               *)
(* (Packet.as_regular_expression, the pack_regexp methods of Int, Data and  *)
(* Bits, FragmentsOfRegexps.assemble_regexp) for FLAT declarations.         *)
(*                                                                          *)
(* A pattern gives every field either a literal value or Any:               *)
(*    pattern = sequence of [n, lit : BOOLEAN, v : value, like]             *)
(* like = [kind |-> "none"] for a plain Any, or a placeholder that asks for *)
(* a byte string that begins with / ends with / contains some bytes:        *)
(*    [kind |-> "starts" | "ends" | "contains", b]   Any(startswith=b) ...  *)
(* Render(dfs, pattern) is the token list the code assembles:               *)
(*    [k |-> "lit", b]       re.escape(bytes)                               *)
(*    [k |-> "dot", n]       .{n}                                           *)
(*    [k |-> "star"]         .*                                             *)
(*    [k |-> "class", s]     [..] over the byte set s                       *)
(*    [k |-> "rx", r]        a user regex pasted in (as a group)            *)
(* MatchesPrefix(tokens, s) is what  re.compile(b"(?s)" + ...).match(s)     *)
(* decides for such a token list.                                           *)
(***************************************************************************)
EXTENDS Session

Lit(b) == [k |-> "lit", b |-> b]
Dot(n) == [k |-> "dot", n |-> n]
Star == [k |-> "star"]
Cls(s) == [k |-> "class", s |-> s]
Rx(r) == [k |-> "rx", r |-> r]

PLook(pattern, n) == pattern[CHOOSE i \in 1..Len(pattern) : pattern[i].n = n]

\* ---- a size expression evaluated on a pattern packet: an Any operand makes every operator raise, except
\* == and != , which Any answers itself (always "equal": named deviation F9c)
RECURSIVE EvalAny(_, _)
\* result: [st |-> "val", v] | [st |-> "raise"] | [st |-> "any"]
EvalAny(e, pattern) ==
    CASE e.e = "c" -> [st |-> "val", v |-> IntV(e.v)]
      [] e.e = "f" -> LET p == PLook(pattern, e.n) IN IF p.lit THEN [st |-> "val", v |-> p.v] ELSE [st |-> "any", v |-> NoneV]
      [] e.e = "bin" ->
            LET a == EvalAny(e.l, pattern) b == EvalAny(e.r, pattern) IN
            IF a.st = "raise" \/ b.st = "raise" THEN [st |-> "raise", v |-> NoneV]
            ELSE IF a.st = "any" \/ b.st = "any"
                 THEN IF e.op = "eq" THEN [st |-> "val", v |-> IntV(1)]
                      ELSE IF e.op = "ne" THEN [st |-> "val", v |-> IntV(0)]
                      ELSE [st |-> "raise", v |-> NoneV]
                 ELSE LET r == Eval(e, [vals |-> [i \in 1..Len(pattern) |-> [n |-> pattern[i].n, v |-> pattern[i].v]], raw |-> <<>>, cur |-> 0])
                      IN IF r.ok THEN [st |-> "val", v |-> r.v] ELSE [st |-> "raise", v |-> NoneV]
      [] e.e = "choose" ->
            LET key == EvalAny(e.key, pattern) IN
            IF key.st # "val" THEN [st |-> "raise", v |-> NoneV]
            ELSE LET hits == {i \in 1..Len(e.alts) : IntV(e.alts[i].k) = key.v} IN
                 IF hits = {} THEN [st |-> "raise", v |-> NoneV]
                 ELSE LET vs == [i \in 1..Len(e.alts) |-> EvalAny(e.alts[i].v, pattern)] IN
                      IF \E i \in 1..Len(e.alts) : vs[i].st # "val" THEN [st |-> "raise", v |-> NoneV]
                      ELSE vs[CHOOSE i \in hits : TRUE]
      [] OTHER -> [st |-> "raise", v |-> NoneV]

\* does the size expression compare an Any-valued field with == / != ?  (F9c)
RECURSIVE UsesAnyEq(_, _)
UsesAnyEq(e, pattern) ==
    CASE e.e = "bin" -> \/ (e.op \in {"eq", "ne"} /\ (EvalAny(e.l, pattern).st = "any" \/ EvalAny(e.r, pattern).st = "any"))
                        \/ UsesAnyEq(e.l, pattern) \/ UsesAnyEq(e.r, pattern)
      [] e.e = "choose" -> UsesAnyEq(e.key, pattern) \/ \E i \in 1..Len(e.alts) : UsesAnyEq(e.alts[i].v, pattern)
      [] OTHER -> FALSE

\* ---- per-field rendering
NoLike == [kind |-> "none"]
\* the expression a placeholder brings with it (pasted where a plain Any gives .*); a known byte count wins over it
LikeTokens(like) ==
    CASE like.kind = "starts" -> <<Lit(like.b), Star>>
      [] like.kind = "ends" -> <<Star, Lit(like.b)>>
      [] like.kind = "contains" -> <<Star, Lit(like.b), Star>>
      [] OTHER -> <<Star>>
\* what the placeholder asks of a value (its NAME: at the begin, at the end, anywhere)
IsPrefixB(b, x) == Len(b) <= Len(x) /\ SubSeq(x, 1, Len(b)) = b
IsSuffixB(b, x) == Len(b) <= Len(x) /\ SubSeq(x, Len(x) - Len(b) + 1, Len(x)) = b
LikeHolds(like, x) ==
    CASE like.kind = "starts" -> IsPrefixB(like.b, x)
      [] like.kind = "ends" -> IsSuffixB(like.b, x)
      [] like.kind = "contains" -> Find(x, like.b) >= 0
      [] OTHER -> TRUE
RenderData(f, pattern) ==
    LET p == PLook(pattern, f.name)
        any == LikeTokens(p.like) IN
    IF p.lit
    THEN <<Lit(p.v.b \o (IF f.size.m = "marker" /\ ~f.size.incl THEN f.size.b ELSE <<>>))>>
    ELSE CASE f.size.m = "const" -> <<Dot(f.size.v)>>
           [] f.size.m = "field" -> LET q == PLook(pattern, f.size.f) IN IF q.lit THEN <<Dot(q.v.i)>> ELSE any
           [] f.size.m = "expr" -> LET r == EvalAny(f.size.e, pattern) IN
                                   IF r.st = "val" /\ r.v.t = "int" THEN <<Dot(r.v.i)>> ELSE any
           [] f.size.m = "marker" -> any \o <<Lit(f.size.b)>>
           [] OTHER -> any \o <<Rx(f.size.r)>>

\* bits: one token per byte of the run; bit string MSB first, "x" = don't care
RECURSIVE BitsOf(_, _)
BitsOf(v, w) == IF w = 0 THEN <<>> ELSE BitsOf(v \div 2, w - 1) \o <<v % 2>>       \* value -> w bits, MSB first
RECURSIVE RunBitString(_, _, _, _)
RunBitString(fs, a, b, pattern) ==       \* sequence over {0, 1, 2}: 2 = don't care
    IF a > b THEN <<>>
    ELSE LET p == PLook(pattern, fs[a].name) IN
         (IF p.lit THEN BitsOf(p.v.i, fs[a].w) ELSE [i \in 1..fs[a].w |-> 2]) \o RunBitString(fs, a + 1, b, pattern)
ByteToken(bits) ==      \* bits: 8 entries
    LET free == {i \in 1..8 : bits[i] = 2}
        fits(x) == \A i \in 1..8 : bits[i] = 2 \/ bits[i] = (x \div Pow(2, 8 - i)) % 2
    IN IF free = (1..8) THEN Dot(1)
       ELSE IF free = {} THEN Lit(<<CHOOSE x \in 0..255 : fits(x)>>)
       ELSE Cls({x \in 0..255 : fits(x)})
RenderBitsRun(fs, a, b, pattern) ==
    LET bs == RunBitString(fs, a, b, pattern) IN
    [j \in 1..(Len(bs) \div 8) |-> ByteToken(SubSeq(bs, 8 * (j - 1) + 1, 8 * j))]

RECURSIVE RenderFrom(_, _, _, _)
RenderFrom(fs, i, pattern, opts) ==
    IF i > Len(fs) THEN <<>>
    ELSE LET f == fs[i] IN
         (CASE f.k = "Int" -> LET p == PLook(pattern, f.name) IN
                              IF p.lit THEN <<Lit(Encode(p.v.i, f.n, IsBig(f, opts)))>> ELSE <<Dot(f.n)>>
            [] f.k = "Data" -> RenderData(f, pattern)
            [] f.k = "Bits" -> IF BitsLast(fs, i) THEN RenderBitsRun(fs, RunStart(fs, i), i, pattern) ELSE <<>>
            [] OTHER -> <<>>)
         \o RenderFrom(fs, i + 1, pattern, opts)

Render(prog, cls, pattern) == RenderFrom(prog[cls].fields, 1, pattern, prog[cls].opts)

\* ---- the matcher
RegexFull(r, w) ==
    CASE r = "Xplus" -> Len(w) >= 1 /\ \A i \in 1..Len(w) : w[i] = 88
      [] r = "crlf" -> w = <<10>> \/ w = <<13, 10>>
      [] r = "XorY" -> w = <<88>> \/ w = <<89>>
      [] r = "Ystar" -> \A i \in 1..Len(w) : w[i] = 89
      [] OTHER -> FALSE

RECURSIVE M(_, _, _, _)
M(toks, i, s, pos) ==      \* pos = number of bytes consumed
    IF i > Len(toks) THEN TRUE
    ELSE LET t == toks[i] rest == Len(s) - pos IN
         CASE t.k = "lit" -> Len(t.b) <= rest /\ SubSeq(s, pos + 1, pos + Len(t.b)) = t.b /\ M(toks, i + 1, s, pos + Len(t.b))
           [] t.k = "dot" -> t.n >= 0 /\ t.n <= rest /\ M(toks, i + 1, s, pos + t.n)
           [] t.k = "star" -> \E j \in 0..rest : M(toks, i + 1, s, pos + j)
           [] t.k = "class" -> rest >= 1 /\ s[pos + 1] \in t.s /\ M(toks, i + 1, s, pos + 1)
           [] OTHER -> \E j \in 0..rest : RegexFull(t.r, SubSeq(s, pos + 1, pos + j)) /\ M(toks, i + 1, s, pos + j)
MatchesPrefix(toks, s) == M(toks, 1, s, 0)

\* the packet parsed from s equals the pattern (Any equals everything)
EqPattern(vals, pattern) ==
    \A i \in 1..Len(pattern) :
        IF pattern[i].lit THEN HasVal(vals, pattern[i].n) /\ Lookup(vals, pattern[i].n) = pattern[i].v
        ELSE pattern[i].like.kind = "none" \/
             (HasVal(vals, pattern[i].n) /\ Lookup(vals, pattern[i].n).t = "bytes" /\ LikeHolds(pattern[i].like, Lookup(vals, pattern[i].n).b))
=============================================================================
