----------------------------- MODULE MC_Regexp -----------------------------
(***************************************************************************)
(* C18 profile.  Init picks a flat declaration, an input s that unpacks,    *)
(* and the subset of fields the pattern fixes (to the values parsed from s, *)
(* so the packet parsed from s equals the pattern by construction);         *)
(* Inv_C18_Sound: the rendered expression matches s.  A second candidate c  *)
(* (any string) is judged by the matcher too, so that the replay binds      *)
(* Render and the matcher to the real as_regular_expression().match on      *)
(* matching AND non-matching candidates.                                    *)
(***************************************************************************)
EXTENDS Regexp, RegexpUniverses, Json

CONSTANTS Part, NParts, CandLen

VARIABLES di, dd, dp, s, parsed, fixed, cand, like, ovr
vars == <<di, dd, dp, s, parsed, fixed, cand, like, ovr>>

USeq == SetToSeq(U_C18)
ASSUME Part = 0 => PrintT(<<"UNIV", ToJson(USeq)>>)

\* other candidates derived from s: a prefix, s with one byte replaced, s extended
CandOf(d, x) == {SubSeq(x, 1, Len(x) - 1), x \o <<MinOf(d.alpha)>>}
                \cup {[x EXCEPT ![k] = b] : k \in {j \in 1..Len(x) : j <= CandLen}, b \in d.alpha}
                \cup {[x EXCEPT ![k] = x[k + 1], ![k + 1] = x[k]] : k \in {j \in 1..(Len(x) - 1) : j <= CandLen}}      \* two neighbours swapped
\* placeholders with an expression of their own, for ONE byte-string field left open: pieces of the value parsed from s
\* (so that the packet parsed from s satisfies them) - its first / last / an inner byte, the whole value
\* (byte strings that do NOT keep their delimiter: where the delimiter is part of the value the library pastes the
\* placeholder's expression IN FRONT of the delimiter, so bytes the two have in common are demanded twice - noted in
\* DESIGN.md, not modelled)
DataNames(fs) == {fs[i].name : i \in {j \in 1..Len(fs) : fs[j].k = "Data" /\
                                   (fs[j].size.m \in {"const", "field", "expr"} \/ (fs[j].size.m = "marker" /\ ~fs[j].size.incl))}}
LikesOf(vals, n) ==
    LET x == Lookup(vals, n).b IN
    IF Len(x) = 0 THEN {}
    ELSE {[n |-> n, kind |-> "starts", b |-> <<x[1]>>], [n |-> n, kind |-> "ends", b |-> <<x[Len(x)]>>],
          [n |-> n, kind |-> "contains", b |-> <<x[(Len(x) + 1) \div 2]>>], [n |-> n, kind |-> "starts", b |-> x],
          [n |-> n, kind |-> "ends", b |-> x]}
HasExprSize(fs) == \E i \in 1..Len(fs) : fs[i].k = "Data" /\ fs[i].size.m = "expr"
IntNames(fs) == {fs[i].name : i \in {j \in 1..Len(fs) : fs[j].k = "Int"}}
ValueNames(fs) == {fs[i].name : i \in {j \in 1..Len(fs) : fs[j].k \in {"Int", "Data", "Bits"}}}

Init == LET us == USeq IN
        \E i \in {j \in 1..Len(us) : j % NParts = Part} :
            LET d == us[i] IN
            /\ di = i /\ dd = d /\ dp = DescribeProg(d.prog)
            /\ \E x \in Strings(d.alpha, d.maxlen) :
                  LET r == DoUnpack(DescribeProg(d.prog), "C0", x, <<>>) IN r.ok /\ s = x /\ parsed = r.vals
            /\ fixed \in SUBSET ValueNames(d.prog["C0"].fields)
            /\ like \in {[n |-> "", kind |-> "none", b |-> <<>>]}
                       \cup (IF fixed # {} THEN {}      \* (placeholders with an expression: next to plain Any everywhere else)
                             ELSE UNION {LikesOf(parsed, n) : n \in {x \in DataNames(d.prog["C0"].fields) : HasVal(parsed, x)}})
            /\ cand \in CandOf(d, s)
            \* a pattern need not come from a parse: one fixed integer may be given ANOTHER value (0): building the expression
            \* must still work, whatever a size expression makes of that value
            /\ ovr \in {""} \cup (IF like.kind = "none" /\ HasExprSize(d.prog["C0"].fields) /\ fixed = IntNames(d.prog["C0"].fields)
                                 THEN IntNames(d.prog["C0"].fields) ELSE {})
Next == UNCHANGED vars
Spec == Init /\ [][Next]_vars

DP == dp
Parsed == parsed
Pattern == [i \in 1..Len(Parsed) |-> [n |-> Parsed[i].n, lit |-> Parsed[i].n \in fixed, v |-> IF Parsed[i].n = ovr THEN IntV(0) ELSE Parsed[i].v,
                                        like |-> IF like.n = Parsed[i].n THEN [kind |-> like.kind, b |-> like.b] ELSE NoLike]]
Tokens == Render(dd.prog, "C0", Pattern)
AnyEqUsed == \E i \in 1..Len(dd.prog["C0"].fields) :
                LET f == dd.prog["C0"].fields[i] IN
                f.k = "Data" /\ f.size.m = "expr" /\ ~PLook(Pattern, f.name).lit /\ UsesAnyEq(f.size.e, Pattern)

\* the pre-filter never rejects a matching packet (named deviation F9c: == on an Any-valued field in a size expression)
Inv_C18_Sound == AnyEqUsed \/ ~EqPattern(Parsed, Pattern) \/ MatchesPrefix(Tokens, s)
\* a candidate the expression matches and that unpacks... is not required to equal the pattern (the filter is only a
\* pre-filter); but a candidate that unpacks to a packet equal to the pattern must be matched
CandParsed == DoUnpack(DP, "C0", cand, <<>>)
Inv_C18_SoundCand == (CandParsed.ok /\ EqPattern(CandParsed.vals, Pattern)) => (AnyEqUsed \/ MatchesPrefix(Tokens, cand))

Emit == PrintT(<<"EMIT", ToJson([d |-> di, s |-> s, pattern |-> Pattern, tokens |-> Tokens, cand |-> cand,
                                 m_s |-> MatchesPrefix(Tokens, s), m_c |-> MatchesPrefix(Tokens, cand),
                                 c_ok |-> CandParsed.ok, c_eq |-> (CandParsed.ok /\ EqPattern(CandParsed.vals, Pattern)),
                                 dev9c |-> AnyEqUsed])>>)
=============================================================================
