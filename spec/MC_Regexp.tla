----------------------------- MODULE MC_Regexp -----------------------------
(***************************************************************************)
(* C18 profile.  Init picks a flat declaration, an input s that unpacks,    *)
(* and the subset of fields the pattern fixes (to the values parsed from s, *)
(* so the packet parsed from s equals the pattern by construction);         *)
(* Inv_C18_Sound: the rendered expression matches s.  A second candidate c  *)
(* (any string) is judged by the matcher too, so that the replay binds      *)
(* Render and the matcher to the real as_regular_expression().match on      *)
(* matching AND non-matching candidates.                                    *)
(***************************************************************************)
EXTENDS Regexp, RegexpUniverses, Json

CONSTANTS Part, NParts, CandLen

VARIABLES di, dd, dp, s, parsed, fixed, cand
vars == <<di, dd, dp, s, parsed, fixed, cand>>

USeq == SetToSeq(U_C18)
ASSUME Part = 0 => PrintT(<<"UNIV", ToJson(USeq)>>)

\* other candidates derived from s: a prefix, s with one byte replaced, s extended
CandOf(d, x) == {SubSeq(x, 1, Len(x) - 1), x \o <<MinOf(d.alpha)>>}
                \cup {[x EXCEPT ![k] = b] : k \in {j \in 1..Len(x) : j <= CandLen}, b \in d.alpha}
                \cup {[x EXCEPT ![k] = x[k + 1], ![k + 1] = x[k]] : k \in {j \in 1..(Len(x) - 1) : j <= CandLen}}      \* two neighbours swapped
ValueNames(fs) == {fs[i].name : i \in {j \in 1..Len(fs) : fs[j].k \in {"Int", "Data", "Bits"}}}

Init == LET us == USeq IN
        \E i \in {j \in 1..Len(us) : j % NParts = Part} :
            LET d == us[i] IN
            /\ di = i /\ dd = d /\ dp = DescribeProg(d.prog)
            /\ \E x \in Strings(d.alpha, d.maxlen) :
                  LET r == DoUnpack(DescribeProg(d.prog), "C0", x, <<>>) IN r.ok /\ s = x /\ parsed = r.vals
            /\ fixed \in SUBSET ValueNames(d.prog["C0"].fields)
            /\ cand \in CandOf(d, s)
Next == UNCHANGED vars
Spec == Init /\ [][Next]_vars

DP == dp
Parsed == parsed
Pattern == [i \in 1..Len(Parsed) |-> [n |-> Parsed[i].n, lit |-> Parsed[i].n \in fixed, v |-> Parsed[i].v]]
Tokens == Render(dd.prog, "C0", Pattern)
AnyEqUsed == \E i \in 1..Len(dd.prog["C0"].fields) :
                LET f == dd.prog["C0"].fields[i] IN
                f.k = "Data" /\ f.size.m = "expr" /\ ~PLook(Pattern, f.name).lit /\ UsesAnyEq(f.size.e, Pattern)

\* the pre-filter never rejects a matching packet (named deviation F9c: == on an Any-valued field in a size expression)
Inv_C18_Sound == AnyEqUsed \/ MatchesPrefix(Tokens, s)
\* a candidate the expression matches and that unpacks... is not required to equal the pattern (the filter is only a
\* pre-filter); but a candidate that unpacks to a packet equal to the pattern must be matched
CandParsed == DoUnpack(DP, "C0", cand, <<>>)
Inv_C18_SoundCand == (CandParsed.ok /\ EqPattern(CandParsed.vals, Pattern)) => (AnyEqUsed \/ MatchesPrefix(Tokens, cand))

Emit == PrintT(<<"EMIT", ToJson([d |-> di, s |-> s, pattern |-> Pattern, tokens |-> Tokens, cand |-> cand,
                                 m_s |-> MatchesPrefix(Tokens, s), m_c |-> MatchesPrefix(Tokens, cand),
                                 c_ok |-> CandParsed.ok, c_eq |-> (CandParsed.ok /\ EqPattern(CandParsed.vals, Pattern)),
                                 dev9c |-> AnyEqUsed])>>)
=============================================================================
