----------------------------- MODULE MC_Values -----------------------------
(***************************************************************************)
(* Value-driven profile (C02, C07 pack side, C19, C12 pack failures):       *)
(* the declaration and the constructor keywords K are chosen in Init;       *)
(* V = Construct(K) is packed (pack machine), the output is parsed again    *)
(* from offset 0 (unpack machine); optionally one attribute is then         *)
(* re-assigned and the packet packed a second time (state kept by the       *)
(* object between two packs must not matter).                               *)
(***************************************************************************)
EXTENDS Values, ValueUniverses, GenPacket, Json

CONSTANTS UName, Part, NParts

VARIABLES di, dd, dp, K, V, mod, phase, p, m, p2
vars == <<di, dd, dp, K, V, mod, phase, p, m, p2>>

U == PickUV(UName)
USeq == SetToSeq(U)
ASSUME Part = 0 => PrintT(<<"UNIV", ToJson(USeq)>>)

NoMod == [n |-> "", v |-> NoneV]
NoMach == [st |-> "none"]

DescNames(prog, cls) == {prog[cls].fields[i].name : i \in {j \in 1..Len(prog[cls].fields) :
                            prog[cls].fields[j].k = "Int" /\ prog[cls].fields[j].desc.kind # "none"}}

Init ==
    LET us == USeq IN
    \E i \in {j \in 1..Len(us) : j % NParts = Part} :
        LET d == us[i] IN
        /\ di = i /\ dd = d /\ dp = DescribeProg(d.prog)
        /\ K \in KwargsOf(d)
        /\ V = Construct(d.prog, d.root, K)
        /\ mod \in ModsOf(d)
        /\ phase = "pack"
        /\ p = [PInit0(d.root, V, <<>>) EXCEPT !.explicit = {K[j].n : j \in 1..Len(K)} \cap DescNames(d.prog, d.root), !.nexp = TRUE,
                                              !.knames = {K[j].n : j \in 1..Len(K)}]
        /\ m = NoMach /\ p2 = NoMach

V2 == SetVal(V, mod.n, mod.v)

\* what the attributes of the constructed packet READ as: a described field named by a keyword reads as that value
\* (the assignment switched the descriptor off), otherwise as what the descriptor computes from the other values
RootField(n) == dd.prog[dd.root].fields[CHOOSE i \in 1..Len(dd.prog[dd.root].fields) : dd.prog[dd.root].fields[i].name = n]
VisibleVals ==
    LET ex == {K[j].n : j \in 1..Len(K)} \cap DescNames(dd.prog, dd.root) IN
    [i \in 1..Len(V) |->
        LET f == RootField(V[i].n) IN
        IF f.k = "Int" /\ f.desc.kind # "none"
        THEN LET r == DescRead(dp, f, V, ex) IN [n |-> V[i].n, v |-> IF r.ok THEN r.v ELSE [t |-> "other"]]
        ELSE V[i]]

StepPack1  == /\ phase = "pack" /\ RunningP(p) /\ p' = StepP(dp, p)
              /\ UNCHANGED <<di, dd, dp, K, V, mod, phase, m, p2>>
StartUnpack == /\ phase = "pack" /\ p.st = "done"
               /\ phase' = "unpack" /\ m' = UInit(dd.root, 0)
               /\ UNCHANGED <<di, dd, dp, K, V, mod, p, p2>>
StepUnpack == /\ phase = "unpack" /\ RunningU(m) /\ m' = StepU(dp, p.out, m)
              /\ UNCHANGED <<di, dd, dp, K, V, mod, phase, p, p2>>
StartPack2 == /\ phase = "unpack" /\ ~RunningU(m) /\ mod # NoMod
              /\ phase' = "pack2"
              /\ p2' = [PInit0(dd.root, V2, <<>>) EXCEPT !.explicit = p.explicit \cup ({mod.n} \cap DescNames(dd.prog, dd.root)), !.nexp = TRUE,
                                                   !.knames = {K[j].n : j \in 1..Len(K)} \cup {mod.n}]
              /\ UNCHANGED <<di, dd, dp, K, V, mod, p, m>>
StepPack2  == /\ phase = "pack2" /\ RunningP(p2) /\ p2' = StepP(dp, p2)
              /\ UNCHANGED <<di, dd, dp, K, V, mod, phase, p, m>>
Next == StepPack1 \/ StartUnpack \/ StepUnpack \/ StartPack2 \/ StepPack2
Spec == Init /\ [][Next]_vars

Terminal == \/ (phase = "pack" /\ p.st = "fail")
            \/ (phase = "unpack" /\ ~RunningU(m) /\ mod = NoMod)
            \/ (phase = "pack2" /\ ~RunningP(p2))

Consistent == ConsistentPkt(dd.prog, dd.root, V)
\* a plain reference whose prototype leaves a described field of the referenced class unassigned: the nested packet
\* serialises what the descriptor COMPUTES, which the constructed value tree V does not hold
NestedComputed(prog) ==
    \E c \in DOMAIN prog : \E i \in 1..Len(prog[c].fields) :
        LET f == prog[c].fields[i] IN
        f.k = "Ref" /\ DescNames(prog, f.cls) \ {f.over[k].n : k \in 1..Len(f.over)} # {}
Plain == NoPositioning(dd.prog) /\ DescNames(dd.prog, dd.root) = {} /\ ~NestedComputed(dd.prog)

\* C02: a consistent assignment packs, re-parses to the same values, consuming everything
Inv_C02_Reparse ==
    (Terminal /\ Consistent /\ Plain) =>
        /\ p.st = "done" /\ m.st = "done"
        /\ m.cur = Len(p.out)
        /\ m.result.vals = V
\* positioned declarations: whenever pack succeeds on a consistent assignment and the output parses, it parses to that
\* assignment (bytes of one field never land on another field's bytes)
Inv_C02_PosReparse ==
    (Terminal /\ Consistent /\ p.st = "done" /\ m.st = "done") => m.result.vals = V
\* C02 / C19: the bytes are the in-order concatenation of the encodings of the (constructed) values
Inv_C02_Layout ==
    (Terminal /\ Consistent /\ Plain) => p.out = Layout(dd.prog, dd.root, V)
\* C07: whatever the per-field values of bit fields, the output is the layout with each value mod 2^w
BitsOnlyIllTyped ==
    \A i \in 1..Len(dd.prog[dd.root].fields) :
        LET f == dd.prog[dd.root].fields[i] IN
        f.k = "Bits" \/ f.k \in {"Em", "Move", "Emb"} \/ WellTyped(dd.prog, f, Lookup(V, f.name))
Inv_C07_Isolated ==
    (Terminal /\ Plain /\ BitsOnlyIllTyped /\ \A i \in 1..Len(V) : V[i].v.t = "int") =>
        (p.st = "done" /\ p.out = Layout(dd.prog, dd.root, V))
\* a second pack after re-assigning one attribute is the pack of the new values
Inv_Pack2 ==
    (phase = "pack2" /\ ~RunningP(p2) /\ Plain /\ ConsistentPkt(dd.prog, dd.root, V2) /\ p2.st = "done") =>
        p2.out = Layout(dd.prog, dd.root, V2)

\* C03 on the model, pack side: the block-step pack machine (GenPacket.tla) serialises the constructed packet to the same
\* bytes / fails with the mapped error stack, for every assignment whose fixed-size byte strings have their declared length
P0 == [PInit0(dd.root, V, <<>>) EXCEPT !.explicit = {K[j].n : j \in 1..Len(K)} \cap DescNames(dd.prog, dd.root), !.nexp = TRUE,
                                       !.knames = {K[j].n : j \in 1..Len(K)}]
Inv_C03_RefineP ==
    (Terminal /\ WellSizedV(dp, PktV(dd.root, V))) =>
        \A g \in {[u |-> FALSE, p |-> TRUE, vec |-> vv] : vv \in BOOLEAN} : C03_RefineP(dp, p, RunPG(dp, P0, g, 600), g)

Emit == Terminal =>
    PrintT(<<"EMIT", ToJson([d |-> di, K |-> K, V |-> V, Vvis |-> VisibleVals, consistent |-> Consistent, mod |-> mod, eqexp |-> (mod = NoMod \/ V2 = V),
                             p |-> [st |-> p.st, out |-> p.out, err |-> p.err, errv |-> GenErrP(dp, p.err, TRUE, p.hookname # ""),
                                    errn |-> GenErrP(dp, p.err, FALSE, p.hookname # ""), writes |-> p.writes],
                             u |-> IF m.st = "none" THEN NoMach
                                   ELSE [st |-> m.st, cur |-> m.cur, result |-> m.result, err |-> m.err],
                             p2 |-> IF p2.st = "none" THEN NoMach ELSE [st |-> p2.st, out |-> p2.out, err |-> p2.err]])>>)
=============================================================================
