----------------------------- MODULE Trace_Auto -----------------------------
(***************************************************************************)
(* code -> spec for C17: recorded histories of operations on a real packet  *)
(* with a described field (longer than the exhaustive bound, random values) *)
(* must be behaviours of MC_Auto's operations: after every operation the    *)
(* recorded attribute read / hidden slot / tracked value / pack result must *)
(* be the specification's.  record: [kind, ops : seq of [op, arg, ok, out, obs]]*)
(***************************************************************************)
EXTENDS Integers, Sequences, FiniteSets, TLC, Json, IOUtils, SequencesExt

Traces == JsonDeserialize(IOEnv.TRACE_FILE)
VARIABLES tid, l, st, assigned, bad
vars == <<tid, l, st, assigned, bad>>

TR == Traces[tid]
K == TR.kind
\* BAD: the tracked field holds something the descriptor's function cannot work on (None): reading the attribute raises
\* (written -2 here) until it is assigned or the tracked field is repaired; nothing of the failure may stay behind
BAD == <<-1>>
Computed(k, t) == IF t = BAD THEN -2 ELSE IF k = "auto" THEN Len(t) + 1 ELSE Len(t)
Read(k, s) == IF s.flag = "F" THEN s.hidden ELSE Computed(k, s.tracked)
Fresh(kw) == IF kw = -1 THEN [flag |-> "unset", hidden |-> 0, tracked |-> <<>>] ELSE [flag |-> "F", hidden |-> kw, tracked |-> <<>>]
EncTracked(k, t) == IF k = "auto" THEN t \o <<0>> ELSE t
Find0(t) == IF \E i \in 1..Len(t) : t[i] = 0 THEN CHOOSE i \in 1..Len(t) : t[i] = 0 /\ \A j \in 1..(i - 1) : t[j] # 0 ELSE 0
UnpackOf(k, raw) ==
    IF raw = <<>> THEN [ok |-> FALSE, s |-> Fresh(-1)]
    ELSE IF k = "auto"
         THEN LET rest == Tail(raw) z == Find0(rest) IN
              IF z = 0 THEN [ok |-> FALSE, s |-> Fresh(-1)]
              ELSE [ok |-> TRUE, s |-> [flag |-> "unset", hidden |-> raw[1], tracked |-> SubSeq(rest, 1, z - 1)]]
         ELSE IF Len(raw) - 1 < raw[1] THEN [ok |-> FALSE, s |-> Fresh(-1)]
              ELSE [ok |-> TRUE, s |-> [flag |-> "unset", hidden |-> raw[1], tracked |-> SubSeq(raw, 2, 1 + raw[1])]]

Init == tid \in 1..Len(Traces) /\ l = 1 /\ st = Fresh(-1) /\ assigned = -1 /\ bad = {}

E == TR.ops[l]
Apply ==   \* [s, a, ok, out]
    CASE E.op = "new" -> [s |-> Fresh(E.arg[1]), a |-> E.arg[1], ok |-> TRUE, out |-> <<>>]
      [] E.op = "set_tracked" -> [s |-> [st EXCEPT !.tracked = E.arg], a |-> assigned, ok |-> TRUE, out |-> <<>>]
      [] E.op = "set_described" -> [s |-> [st EXCEPT !.flag = "F", !.hidden = E.arg[1]], a |-> E.arg[1], ok |-> TRUE, out |-> <<>>]
      [] E.op = "del_described" -> [s |-> [st EXCEPT !.flag = "T"], a |-> -1, ok |-> TRUE, out |-> <<>>]
      [] E.op = "unpack" -> LET r == UnpackOf(K, E.arg) IN
                            IF r.ok THEN [s |-> r.s, a |-> -1, ok |-> TRUE, out |-> <<>>] ELSE [s |-> st, a |-> assigned, ok |-> FALSE, out |-> <<>>]
      [] OTHER -> LET v == Read(K, st) IN
                  IF st.tracked = BAD THEN [s |-> st, a |-> assigned, ok |-> FALSE, out |-> <<>>]
                  ELSE IF v < 0 \/ v > 255 THEN [s |-> [st EXCEPT !.hidden = v], a |-> assigned, ok |-> FALSE, out |-> <<>>]
                  ELSE [s |-> [st EXCEPT !.hidden = v], a |-> assigned, ok |-> TRUE, out |-> <<v>> \o EncTracked(K, st.tracked)]

F(name, ok) == IF ok THEN {} ELSE {name}
Next == /\ l <= Len(TR.ops)
        /\ LET r == Apply IN
           /\ st' = r.s /\ assigned' = r.a
           /\ bad' = bad \cup F("C17_Outcome", E.ok = r.ok)
                         \cup F("C17_Read", E.obs.read = Read(K, r.s))
                         \cup F("C17_ReadGhost", E.obs.read = IF r.a # -1 THEN r.a ELSE Computed(K, r.s.tracked))
                         \cup F("C17_Hidden", (E.op \in {"pack", "set_described", "unpack"} /\ r.ok) => E.obs.hidden = r.s.hidden)
                         \cup F("C17_Tracked", E.obs.tracked = r.s.tracked)
                         \cup F("C17_PackBytes", (E.op = "pack" /\ E.ok /\ r.ok) => E.out = r.out)
                         \cup F("C17_NoDict", ~E.hasdict)
        /\ l' = l + 1 /\ UNCHANGED tid
Spec == Init /\ [][Next]_vars
Report == (l = Len(TR.ops) + 1) => PrintT(<<"RES", tid, SetToSeq(bad)>>)
=============================================================================
