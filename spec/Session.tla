------------------------------ MODULE Session ------------------------------
(***************************************************************************)
(* Histories over several live packets (C13): construct / unpack /          *)
(* attribute-set / mutate-nested / pack, each performed by the machines of  *)
(* Packet.tla run to completion, with the state that outlives one           *)
(* operation: the live packets and the FIELD-OBJECT REGISTERS (everything   *)
(* a field object remembers after compilation; on the pinned tree: the      *)
(* delimiter last matched by a regex-delimited Data field, F2).             *)
(***************************************************************************)
EXTENDS Values

RECURSIVE RunU(_, _, _)
RunU(dp, raw, m) == IF RunningU(m) THEN RunU(dp, raw, StepU(dp, raw, m)) ELSE m
RECURSIVE RunP(_, _)
RunP(dp, p) == IF RunningP(p) THEN RunP(dp, StepP(dp, p)) ELSE p

\* unpack(raw) of class cls with the registers as they are now: [ok, vals, regs]
DoUnpack(dp, cls, raw, regs) ==
    LET m == RunU(dp, raw, [UInit(cls, 0) EXCEPT !.regs = regs]) IN
    [ok |-> m.st = "done", vals |-> IF m.st = "done" THEN m.result.vals ELSE <<>>, regs |-> m.regs]

\* pack() of a packet value: [ok, out]   (registers are only read)
DoPack(dp, cls, vals, regs) ==
    LET p == RunP(dp, PInit0(cls, vals, regs)) IN [ok |-> p.st = "done", out |-> p.out]

\* ... of a packet whose described fields `exp` were assigned explicitly (their descriptors are switched off)
DoPackE(dp, cls, vals, regs, exp) ==
    LET p == RunP(dp, [PInit0(cls, vals, regs) EXCEPT !.explicit = exp, !.nexp = TRUE]) IN [ok |-> p.st = "done", out |-> p.out]
\* what the attributes of a live packet read as: a described field reads as the value assigned to it, or as what its
\* descriptor computes from the other fields (the hidden slot behind it is not observable)
DescNamesOf(prog, cls) == {prog[cls].fields[i].name : i \in {j \in 1..Len(prog[cls].fields) :
                             prog[cls].fields[j].k = "Int" /\ prog[cls].fields[j].desc.kind # "none"}}
VisibleOf(prog, cls, vals, exp) ==
    [i \in 1..Len(vals) |->
        IF vals[i].n \in DescNamesOf(prog, cls)
        THEN LET f == prog[cls].fields[CHOOSE j \in 1..Len(prog[cls].fields) : prog[cls].fields[j].name = vals[i].n]
                 r == DescRead(DescribeProg(prog), f, vals, exp) IN
             [n |-> vals[i].n, v |-> IF r.ok THEN r.v ELSE [t |-> "other"]]
        ELSE vals[i]]

\* named deviation F2: the registers an unpack leaves behind differ from those it found
RegsChanged(before, after) == before # after
\* named deviation F3 is a feature of the declaration: a selector written as a deferred expression whose
\* alternatives are packet INSTANCES hands the same object to every parse
SelectorSharesObject(prog) ==
    \E c \in DOMAIN prog : \E i \in 1..Len(prog[c].fields) :
        LET f == prog[c].fields[i] IN
        f.k = "RefSel" /\ f.form \in {"chooses", "shared"} /\ \E j \in 1..Len(f.alts) : f.alts[j].alt.k = "Ref"
=============================================================================
