SPECIFICATION Spec
INVARIANT Inv_C11_RaiseExact
INVARIANT Inv_C11_Cursor
INVARIANT Inv_C11_Mem
INVARIANT Inv_C11_ToBytes
INVARIANT Accept
PROPERTY Prop_C11_NoLoss
