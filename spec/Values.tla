------------------------------ MODULE Values ------------------------------
(***************************************************************************)
(* The value side of a declaration: declared defaults, the constructor      *)
(* (keyword overrides), small value domains per field kind, and the         *)
(* structural definition of "a value assignment consistent with the         *)
(* declaration" (C02), plus the independent Layout of a move-free packet.   *)
(***************************************************************************)
EXTENDS Packet

\* ------------------------------------------------------------- defaults
RECURSIVE DefaultOfField(_, _), DefaultVals(_, _, _)
DefaultOfField(prog, f) ==
    CASE f.k = "Int" -> IntV(f.dflt)
      [] f.k = "Bits" -> IntV(f.dflt)
      [] f.k = "Data" ->
            IF f.dflt # <<>> THEN BytesV(f.dflt)
            ELSE IF f.size.m = "const" THEN BytesV(RepeatByte(0, f.size.v)) ELSE BytesV(<<>>)
      [] f.k = "Ref" ->      \* a fresh clone of the prototype: the class defaults with the prototype's overrides
            PktV(f.cls, [i \in 1..Len(DefaultVals(prog, prog[f.cls].fields, 1)) |->
                            LET e == DefaultVals(prog, prog[f.cls].fields, 1)[i] IN
                            IF HasVal(f.over, e.n) THEN [n |-> e.n, v |-> Lookup(f.over, e.n)] ELSE e])
      [] f.k = "RefSel" -> f.dflt
      [] f.k = "Rep" -> ListV(f.dflt)
      [] f.k = "Opt" -> f.dflt
      [] OTHER -> NoneV

DefaultVals(prog, fs, i) ==
    IF i > Len(fs) THEN <<>>
    ELSE IF fs[i].k \in {"Em", "Move", "Emb"} THEN DefaultVals(prog, fs, i + 1)
    ELSE <<[n |-> fs[i].name, v |-> DefaultOfField(prog, fs[i])]>> \o DefaultVals(prog, fs, i + 1)

\* Cls(**K): keyword arguments override exactly the fields they name
Construct(prog, cls, K) ==
    LET dv == DefaultVals(prog, prog[cls].fields, 1) IN
    [i \in 1..Len(dv) |-> IF HasVal(K, dv[i].n) THEN [n |-> dv[i].n, v |-> Lookup(K, dv[i].n)] ELSE dv[i]]

\* ------------------------------------------------------------- domains
IntDom(f) ==
    LET hi == IF f.signed THEN 128 * Pow(256, f.n - 1) - 1 ELSE Pow(256, f.n) - 1
        lo == IF f.signed THEN 0 - 128 * Pow(256, f.n - 1) ELSE 0
    IN {0, 1, 2, hi, lo, hi + 1, lo - 1}
BitsDom(f) == {0, 1, Pow(2, f.w) - 1, Pow(2, f.w), Pow(2, f.w) + 1, 0 - 1, 0 - Pow(2, f.w)}
ByteAlpha == {0, 1, 65}
BytesUpTo(n) == UNION {[1..k -> ByteAlpha] : k \in 0..n}

RECURSIVE FieldDom(_, _, _), ValsDom(_, _, _, _), AltsDom(_, _, _, _)
\* depth: > 0 at the top level of the root packet (boundary domains); nested values (inside
\* references, lists, optionals) use two-element domains; below depth -1 references take their default
Nested(depth) == depth <= 0
FieldDom(prog, f, depth) ==
    CASE f.k = "Int" -> IF Nested(depth) THEN {IntV(0), IntV(1)} ELSE {IntV(x) : x \in IntDom(f)}
      [] f.k = "Bits" -> IF Nested(depth) THEN {IntV(0), IntV(1)} ELSE {IntV(x) : x \in BitsDom(f)}
      [] f.k = "Data" ->
            IF f.size.m = "const" THEN {BytesV([i \in 1..f.size.v |-> b]) : b \in IF Nested(depth) THEN {65} ELSE {0, 65}}
            ELSE IF Nested(depth) THEN {BytesV(<<>>), BytesV(<<65>>)} ELSE {BytesV(b) : b \in BytesUpTo(2)}
      [] f.k = "Ref" -> IF depth < 0 THEN {DefaultOfField(prog, f)}
                        ELSE {PktV(f.cls, vs) : vs \in ValsDom(prog, prog[f.cls].fields, 1, IF depth > 0 THEN 0 ELSE -1)}
      [] f.k = "RefSel" -> AltsDom(prog, f.alts, 1, IF depth > 0 THEN 0 ELSE depth)
      [] f.k = "Rep" -> {ListV(s) : s \in UNION {[1..k -> FieldDom(prog, f.elem, IF depth > 0 THEN 0 ELSE -1)] : k \in 0..2}}
      [] f.k = "Opt" -> {NoneV} \cup FieldDom(prog, f.elem, IF depth > 0 THEN 0 ELSE -1)
      [] OTHER -> {NoneV}

\* (a plain union, not UNION {..}: TLC cannot order a set of sets whose elements are of different kinds)
AltsDom(prog, alts, i, depth) ==
    IF i > Len(alts) THEN {} ELSE FieldDom(prog, alts[i].alt, depth) \cup AltsDom(prog, alts, i + 1, depth)

ValsDom(prog, fs, i, depth) ==
    IF i > Len(fs) THEN {<<>>}
    ELSE IF fs[i].k \in {"Em", "Move", "Emb"} THEN ValsDom(prog, fs, i + 1, depth)
    ELSE {<<[n |-> fs[i].name, v |-> x]>> \o rest :
             x \in FieldDom(prog, fs[i], depth), rest \in ValsDom(prog, fs, i + 1, depth)}

\* ---------------------------------------------------------- consistency
\* value x is a well-formed value of field f (ignoring relations to other fields)
RECURSIVE WellTyped(_, _, _)
WellTyped(prog, f, x) ==
    CASE f.k = "Int" -> x.t = "int" /\ Representable(x.i, f.n, f.signed)
      [] f.k = "Bits" -> x.t = "int" /\ x.i >= 0 /\ x.i < Pow(2, f.w)
      [] f.k = "Data" -> x.t = "bytes" /\ (f.size.m = "const" => Len(x.b) = f.size.v)
      [] f.k = "Ref" -> x.t = "pkt" /\ x.cls = f.cls
      [] f.k = "RefSel" -> \E i \in 1..Len(f.alts) : WellTyped(prog, f.alts[i].alt, x)
      [] f.k = "Rep" -> x.t = "list" /\ \A j \in 1..Len(x.l) : WellTyped(prog, f.elem, x.l[j])
      [] f.k = "Opt" -> x.t = "none" \/ WellTyped(prog, f.elem, x)
      [] OTHER -> TRUE

\* "delimiter-free body": the first occurrence of the delimiter in value \o delimiter is at the end
BodyOK(f, x) ==
    IF f.k # "Data" \/ f.size.m # "marker" THEN TRUE
    ELSE IF f.size.incl
         THEN Len(x.b) >= Len(f.size.b) /\ Find(x.b, f.size.b) = Len(x.b) - Len(f.size.b)
         ELSE Find(x.b \o f.size.b, f.size.b) = Len(x.b)

\* relations between the fields of one packet value (vals complete, in declaration order)
RECURSIVE ConsistentPkt(_, _, _)
ConsistentField(prog, cls, f, vals) ==
    LET x == Lookup(vals, f.name)
        env == [vals |-> vals, raw |-> <<>>, cur |-> 0]
    IN
    /\ WellTyped(prog, f, x)
    /\ BodyOK(f, x)
    /\ (f.k = "Data" /\ f.size.m \in {"field", "expr"}) =>
            LET n == EvalSpec(f.size, env) IN n.ok /\ n.v.t = "int" /\ n.v.i = Len(x.b)
    /\ (f.k = "Rep" /\ f.count.m # "none") =>
            LET c == EvalSpec(f.count, env) IN
            /\ c.ok /\ c.v.t = "int"
            /\ IF f.when.m # "none" /\ (c.v.i <= 0 \/ ~CondTruth(f.when, env).b)
               THEN Len(x.l) = 0
               ELSE Len(x.l) = Max2(c.v.i, 0)
    /\ (f.k = "Rep" /\ f.count.m = "none") =>      \* until: false on proper non-empty prefixes, true at the end
            IF f.when.m # "none" /\ ~CondTruth(f.when, env).b THEN Len(x.l) = 0
            ELSE /\ Len(x.l) >= 1
                 /\ \A k \in 1..Len(x.l) :
                       LET e2 == [env EXCEPT !.vals = SetVal(vals, f.name, ListV(SubSeq(x.l, 1, k)))]
                           c == CondTruth(f.until, e2) IN
                       c.ok /\ (c.b <=> k = Len(x.l))
    /\ (f.k = "Opt") => (x.t # "none" <=> CondTruth(f.when, env).b)
    /\ (f.k = "Ref") => ConsistentPkt(prog, x.cls, x.vals)
    /\ (f.k = "RefSel") =>
            LET key == Eval(f.key, env)
                hits == {i \in 1..Len(f.alts) : key.ok /\ IntV(f.alts[i].key) = key.v} IN
            /\ hits # {}
            /\ LET alt == f.alts[CHOOSE i \in hits : TRUE].alt IN
               WellTyped(prog, alt, x) /\ (alt.k = "Ref" => ConsistentPkt(prog, x.cls, x.vals))
    /\ (f.k \in {"Rep", "Opt"} /\ f.elem.k = "Ref") =>
            \A j \in 1..(IF x.t = "list" THEN Len(x.l) ELSE 0) : ConsistentPkt(prog, x.l[j].cls, x.l[j].vals)
    /\ (f.k = "Opt" /\ f.elem.k = "Ref" /\ x.t = "pkt") => ConsistentPkt(prog, x.cls, x.vals)

ConsistentPkt(prog, cls, vals) ==
    \A i \in 1..Len(prog[cls].fields) :
        LET f == prog[cls].fields[i] IN
        f.k \in {"Em", "Move", "Emb"} \/ (HasVal(vals, f.name) /\ ConsistentField(prog, cls, f, vals))

NoPositioning(prog) ==
    \A c \in DOMAIN prog : prog[c].opts.align = 0 /\
        \A i \in 1..Len(prog[c].fields) :
            LET f == prog[c].fields[i] IN f.mv.kind = "none" /\ (f.k = "Rep" => f.aligned = 0)

\* ------------------------------------------------ independent layout (C02)
\* the in-order concatenation of each field's encoding, for declarations without positioning
RECURSIVE EncValue(_, _, _, _), EncVals(_, _, _, _)
RECURSIVE RunValue2(_, _, _, _)
RunValue2(fs, a, b, vals) ==
    IF a > b THEN 0
    ELSE (Lookup(vals, fs[a].name).i % Pow(2, fs[a].w)) * Pow(2, SumW(fs, a + 1, b)) + RunValue2(fs, a + 1, b, vals)

EncValue(prog, opts, f, x) ==
    CASE f.k = "Int" -> Encode(x.i, f.n, IsBig(f, opts))
      [] f.k = "Data" -> x.b \o (IF f.size.m = "marker" /\ ~f.size.incl THEN f.size.b ELSE <<>>)
      [] f.k = "Ref" -> EncVals(prog, x.cls, 1, x.vals)
      [] f.k = "RefSel" -> IF x.t = "pkt" THEN EncVals(prog, x.cls, 1, x.vals)
                           ELSE LET i == CHOOSE i \in 1..Len(f.alts) : WellTyped(prog, f.alts[i].alt, x) IN
                                EncValue(prog, opts, f.alts[i].alt, x)
      [] f.k = "Rep" -> IF x.l = <<>> THEN <<>>
                        ELSE EncValue(prog, opts, f.elem, x.l[1]) \o EncValue(prog, opts, f, ListV(Tail(x.l)))
      [] f.k = "Opt" -> IF x.t = "none" THEN <<>> ELSE EncValue(prog, opts, f.elem, x)
      [] OTHER -> <<>>

EncVals(prog, cls, i, vals) ==
    LET fs == prog[cls].fields IN
    IF i > Len(fs) THEN <<>>
    ELSE IF fs[i].k = "Bits"
         THEN (IF BitsLast(fs, i) THEN EncodeBE(RunValue2(fs, RunStart(fs, i), i, vals), RunBits(fs, i) \div 8) ELSE <<>>)
              \o EncVals(prog, cls, i + 1, vals)
         ELSE IF fs[i].k \in {"Em", "Move", "Emb"} THEN EncVals(prog, cls, i + 1, vals)
         ELSE EncValue(prog, prog[cls].opts, fs[i], Lookup(vals, fs[i].name)) \o EncVals(prog, cls, i + 1, vals)

Layout(prog, cls, vals) == EncVals(prog, cls, 1, vals)
=============================================================================
