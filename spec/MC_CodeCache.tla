---------------------------- MODULE MC_CodeCache ----------------------------
EXTENDS CodeCache
MC_Procs == {"p1", "p2"}
MC_Procs3 == {"p1", "p2", "p3"}
MC_Decls == {"A", "B", "Bp"}
MC_Decls4 == {"A", "B", "Bp", "Ao"}          \* Ao: the fields of A under other code-generation options
MC_Order == [p1 |-> 1, p2 |-> 2, p3 |-> 3]
MC_SizeOf == [A |-> 1, B |-> 2, Bp |-> 2, Ao |-> 3]       \* B and Bp generate source of the same length
MC_AllShapes == {"complete", "empty", "nocookie", "cookie_nofn", "broken"}
MC_CompleteOnly == {"complete"}
=============================================================================
