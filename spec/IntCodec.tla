------------------------------ MODULE IntCodec ------------------------------
(***************************************************************************)
(* C05: integer fields of ANY width encode and decode exact two's           *)
(* complement.  TLC integers are 32-bit, so values are kept as              *)
(*    [neg : BOOLEAN, mag : base-256 big-endian digits without leading 0]   *)
(* and all arithmetic is digit arithmetic (the harness converts digit       *)
(* sequences to Python integers).                                           *)
(***************************************************************************)
EXTENDS Integers, Sequences, FiniteSets, SequencesExt, TLC

RECURSIVE StripZeros(_)
StripZeros(ds) == IF ds # <<>> /\ Head(ds) = 0 THEN StripZeros(Tail(ds)) ELSE ds

Zero == [neg |-> FALSE, mag |-> <<>>]
Val(neg, ds) == LET m == StripZeros(ds) IN [neg |-> neg /\ m # <<>>, mag |-> m]

\* ds + 1 on big-endian digits of fixed length (wraps)
RECURSIVE Inc(_)
Inc(ds) == IF ds = <<>> THEN <<>>
           ELSE LET n == Len(ds) IN
                IF ds[n] < 255 THEN [ds EXCEPT ![n] = @ + 1]
                ELSE Inc(SubSeq(ds, 1, n - 1)) \o <<0>>
\* ds - 1 (ds # 0)
RECURSIVE Dec(_)
Dec(ds) == LET n == Len(ds) IN
           IF ds[n] > 0 THEN [ds EXCEPT ![n] = @ - 1]
           ELSE Dec(SubSeq(ds, 1, n - 1)) \o <<255>>
Compl(ds) == [i \in 1..Len(ds) |-> 255 - ds[i]]
\* two's complement negation on n digits: 2^(8n) - x
TwosNeg(ds) == Inc(Compl(ds))

ToBig(bs, big) == IF big THEN bs ELSE Reverse(bs)

\* decode n bytes (n = Len(bs) >= 1)
Decode(bs, signed, big) ==
    LET d == ToBig(bs, big) IN
    IF signed /\ d[1] >= 128 THEN Val(TRUE, TwosNeg(d)) ELSE Val(FALSE, d)

PadTo(ds, n) == [i \in 1..(n - Len(ds)) |-> 0] \o ds

\* magnitude comparison of stripped digit sequences
RECURSIVE LessEq(_, _)
LessEq(a, b) == IF Len(a) # Len(b) THEN Len(a) < Len(b)
                ELSE IF a = <<>> THEN TRUE
                ELSE IF a[1] # b[1] THEN a[1] < b[1] ELSE LessEq(Tail(a), Tail(b))

Half(n) == <<128>> \o [i \in 1..(n - 1) |-> 0]          \* 2^(8n-1)
MaxU(n) == [i \in 1..n |-> 255]                        \* 2^(8n) - 1
MaxS(n) == <<127>> \o [i \in 1..(n - 1) |-> 255]       \* 2^(8n-1) - 1

Representable(v, n, signed) ==
    IF signed THEN (IF v.neg THEN LessEq(v.mag, Half(n)) ELSE LessEq(v.mag, MaxS(n)))
    ELSE ~v.neg /\ Len(v.mag) <= n

\* encode on n bytes: [ok, bs]
Encode(v, n, signed, big) ==
    IF ~Representable(v, n, signed) THEN [ok |-> FALSE, bs |-> <<>>]
    ELSE LET d == PadTo(v.mag, n)
             t == IF v.neg THEN TwosNeg(d) ELSE d
         IN [ok |-> TRUE, bs |-> ToBig(t, big)]

\* byte order from the five spellings and the class default
HostBig == FALSE
EffBig(endian, clsEndian) ==
    LET e == IF endian = "default" THEN (IF clsEndian = "none" THEN "big" ELSE clsEndian) ELSE endian
    IN e \in {"big", "network"} \/ (e = "local" /\ HostBig)
=============================================================================
