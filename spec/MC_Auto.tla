------------------------------- MODULE MC_Auto -------------------------------
(***************************************************************************)
(* C17: a field described by Auto / AutoLength (bisturi/descriptor.py).     *)
(* One live packet of one of three classes                                  *)
(*   "len"   length = Int(1).describe(AutoLength("a")),  a = Data(length)   *)
(*   "rep"   n = Int(1).describe(AutoLength("r")),       r = Int(1).repeated(n)*)
(*   "auto"  c = Int(1).describe(Auto(len(a) + 1)),      a = Data(until 00) *)
(* state = [flag, hidden, tracked]: the enabled flag of the descriptor      *)
(* ("unset" = never written = enabled), the hidden real field, the tracked  *)
(* field.  Histories of New / SetTracked / SetDescribed / DelDescribed /    *)
(* Unpack / Pack.  `assigned` is the GHOST of the property: the value       *)
(* explicitly assigned since the last delete / construction / parse.        *)
(***************************************************************************)
EXTENDS Integers, Sequences, FiniteSets, TLC, Json

CONSTANTS MaxOps, KeepHist

VARIABLES kind, st, assigned, last, n, hist
vars == <<kind, st, assigned, last, n, hist>>

Kinds == {"len", "rep", "auto"}
DescVals == {0, 1, 7, 300}
Raws(k) == IF k = "auto" THEN {<<1, 0>>, <<2, 65, 0>>, <<9, 65, 66, 0>>, <<1>>}
           ELSE {<<0>>, <<1, 65>>, <<2, 65, 66>>, <<3, 65>>, <<>>}

\* BAD: the tracked field holds something the descriptor's function cannot work on (None): reading the attribute raises
\* (written -2 here) until it is assigned or the tracked field is repaired; nothing of the failure may stay behind
BAD == <<-1>>
Computed(k, t) == IF t = BAD THEN -2 ELSE IF k = "auto" THEN Len(t) + 1 ELSE Len(t)
Tracked == {<<>>, <<65>>, <<65, 66>>, BAD}
Read(k, s) == IF s.flag = "F" THEN s.hidden ELSE Computed(k, s.tracked)

Fresh(k, kw) == IF kw = -1 THEN [flag |-> "unset", hidden |-> 0, tracked |-> <<>>]
                ELSE [flag |-> "F", hidden |-> kw, tracked |-> <<>>]

\* pack: the sync hook writes what the attribute reads as into the hidden field, then the fields are serialised
EncTracked(k, t) == IF k = "auto" THEN t \o <<0>> ELSE t
PackOf(k, s) == LET v == Read(k, s) IN
                IF s.tracked = BAD THEN [ok |-> FALSE, out |-> <<>>, s |-> s]      \* (the hook or the tracked field's own encoder raises)
                ELSE IF v < 0 \/ v > 255 THEN [ok |-> FALSE, out |-> <<>>, s |-> [s EXCEPT !.hidden = v]]
                ELSE [ok |-> TRUE, out |-> <<v>> \o EncTracked(k, s.tracked), s |-> [s EXCEPT !.hidden = v]]

\* unpack: [ok, s]; the parsed value of the described field lands in the hidden field, the flag is untouched (unset)
Find0(t) == IF \E i \in 1..Len(t) : t[i] = 0 THEN CHOOSE i \in 1..Len(t) : t[i] = 0 /\ \A j \in 1..(i - 1) : t[j] # 0 ELSE 0
UnpackOf(k, raw) ==
    IF raw = <<>> THEN [ok |-> FALSE, s |-> Fresh(k, -1)]
    ELSE IF k = "auto"
         THEN LET rest == Tail(raw) z == Find0(rest) IN
              IF z = 0 THEN [ok |-> FALSE, s |-> Fresh(k, -1)]
              ELSE [ok |-> TRUE, s |-> [flag |-> "unset", hidden |-> raw[1], tracked |-> SubSeq(rest, 1, z - 1)]]
         ELSE IF Len(raw) - 1 < raw[1] THEN [ok |-> FALSE, s |-> Fresh(k, -1)]
              ELSE [ok |-> TRUE, s |-> [flag |-> "unset", hidden |-> raw[1], tracked |-> SubSeq(raw, 2, 1 + raw[1])]]

NoOp == [op |-> "init", arg |-> <<>>, ok |-> TRUE, out |-> <<>>]
Obs(k, s) == [read |-> Read(k, s), hidden |-> s.hidden, tracked |-> s.tracked]
Log(o, s) == hist' = IF KeepHist THEN Append(hist, [op |-> o.op, arg |-> o.arg, ok |-> o.ok, out |-> o.out, obs |-> Obs(kind, s)]) ELSE hist

Init == /\ kind \in Kinds /\ st = Fresh(kind, -1) /\ assigned = -1 /\ last = NoOp /\ n = 0 /\ hist = <<>>

Op(o, s2, a2) == /\ st' = s2 /\ assigned' = a2 /\ last' = o /\ n' = n + 1 /\ Log(o, s2) /\ UNCHANGED kind

New == \E kw \in {-1} \cup DescVals :
          Op([op |-> "new", arg |-> <<kw>>, ok |-> TRUE, out |-> <<>>], Fresh(kind, kw), kw)
SetTracked == \E t \in Tracked : Op([op |-> "set_tracked", arg |-> t, ok |-> TRUE, out |-> <<>>], [st EXCEPT !.tracked = t], assigned)
SetDescribed == \E v \in DescVals : Op([op |-> "set_described", arg |-> <<v>>, ok |-> TRUE, out |-> <<>>], [st EXCEPT !.flag = "F", !.hidden = v], v)
DelDescribed == Op([op |-> "del_described", arg |-> <<>>, ok |-> TRUE, out |-> <<>>], [st EXCEPT !.flag = "T"], -1)
Unpack == \E raw \in Raws(kind) :
            LET r == UnpackOf(kind, raw) IN
            IF r.ok THEN Op([op |-> "unpack", arg |-> raw, ok |-> TRUE, out |-> <<>>], r.s, -1)
            ELSE Op([op |-> "unpack", arg |-> raw, ok |-> FALSE, out |-> <<>>], st, assigned)      \* the live packet is untouched
Pack == LET r == PackOf(kind, st) IN Op([op |-> "pack", arg |-> <<>>, ok |-> r.ok, out |-> r.out], r.s, assigned)

Next == n < MaxOps /\ (New \/ SetTracked \/ SetDescribed \/ DelDescribed \/ Unpack \/ Pack)
Spec == Init /\ [][Next]_vars

\* the attribute reads as the computed value until explicitly assigned, as the assigned value until deleted
Inv_C17_Read == Read(kind, st) = IF assigned # -1 THEN assigned ELSE Computed(kind, st.tracked)
\* pack() serialises exactly what the attribute reads as at that moment (and fails iff that does not fit the field)
Inv_C17_Pack == last.op = "pack" =>
                   /\ last.ok <=> (Read(kind, st) >= 0 /\ Read(kind, st) <= 255 /\ st.tracked # BAD)
                   /\ last.ok => (last.out[1] = Read(kind, st) /\ SubSeq(last.out, 2, Len(last.out)) = EncTracked(kind, st.tracked))
\* packing does not change what the attribute reads as
Prop_C17_PackKeepsRead == [][last'.op = "pack" => Read(kind, st') = Read(kind, st)]_vars

Emit == (KeepHist /\ n = MaxOps) => PrintT(<<"EMIT", ToJson([kind |-> kind, hist |-> hist])>>)
=============================================================================
