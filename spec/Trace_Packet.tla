---------------------------- MODULE Trace_Packet ----------------------------
(***************************************************************************)
(* code -> spec.  A batch of recorded executions of the real classes is     *)
(* read from IOEnv.TRACE_FILE (JSON array).  Each record carries the        *)
(* declaration (same JSON as Decl.tla's records), the input, the start      *)
(* offset and what the harness observed: cu (unpack) and cp (pack), in the  *)
(* observation shape of PacketProps.  For every record TLC                  *)
(*   (1) runs the machines of Packet.tla on the same declaration and input  *)
(*       and compares every observable with the recording (conformance:     *)
(*       the recorded execution must be the behaviour the specification     *)
(*       allows for that input), and                                        *)
(*   (2) evaluates the property predicates on the RECORDED observations.    *)
(* One line <<"RES", tid, <<failed clause names>>>> is printed per record;  *)
(* an empty tuple is acceptance.  The harness decides which clauses a       *)
(* property owns.                                                           *)
(***************************************************************************)
EXTENDS PacketProps, Json, IOUtils

Traces == JsonDeserialize(IOEnv.TRACE_FILE)

VARIABLES tid, phase, m, p
vars == <<tid, phase, m, p>>

T == Traces[tid]
DP == DescribeProg(T.prog)
NoPack == [st |-> "none"]

Init == /\ tid \in 1..Len(Traces)
        /\ phase = "unpack"
        /\ m = UInit(Traces[tid].root, Traces[tid].start)
        /\ p = NoPack

StepUnpack == /\ phase = "unpack" /\ RunningU(m)
              /\ m' = StepU(DP, T.raw, m) /\ UNCHANGED <<tid, phase, p>>
\* the pack machine starts from the values the CODE parsed (so a pack is judged on its own)
StartPack  == /\ phase = "unpack" /\ ~RunningU(m) /\ T.cu.st = "done" /\ T.cp.st # "none"
              /\ phase' = "pack"
              /\ p' = [PInit0(T.root, T.cu.result.vals, IF m.st = "done" THEN m.regs ELSE <<>>) EXCEPT !.explicit = {}]
              /\ UNCHANGED <<tid, m>>
StepPack   == /\ phase = "pack" /\ RunningP(p)
              /\ p' = StepP(DP, p) /\ UNCHANGED <<tid, phase, m>>
Next == StepUnpack \/ StartPack \/ StepPack
Spec == Init /\ [][Next]_vars

Terminal == \/ (phase = "unpack" /\ ~RunningU(m) /\ ~(T.cu.st = "done" /\ T.cp.st # "none"))
            \/ (phase = "pack" /\ ~RunningP(p))

F(name, ok) == IF ok THEN {} ELSE {name}

MU == UObsOf(m)
MP == PObsOf(p)
CU == T.cu
CP == T.cp
StripReads(rs) == [i \in 1..Len(rs) |-> [lo |-> rs[i].lo, hi |-> rs[i].hi]]

Failed ==
    \* ---- conformance: recorded execution vs the machines
    F("conf_outcome", CU.st = MU.st) \cup
    F("conf_values", (CU.st = "done" /\ MU.st = "done") => CU.result = MU.result) \cup
    F("conf_end", (CU.st = "done" /\ MU.st = "done") => CU.endc = MU.endc) \cup
    F("conf_err", (CU.st = "fail" /\ MU.st = "fail") =>
                     CU.err = (IF T.generic THEN MU.err ELSE GenErr(DP, MU.err, T.vec, m.hookname # ""))) \cup
    F("conf_err_depth", (CU.st = "fail" /\ MU.st = "fail") => Len(CU.err) = Len(MU.err)) \cup
    F("conf_reads", (T.generic /\ CU.st = MU.st) => StripReads(CU.reads) = StripReads(MU.reads)) \cup
    F("conf_evs", (T.generic /\ CU.st = "done" /\ MU.st = "done") => CU.evs = MU.evs) \cup
    F("conf_pack_outcome", phase = "pack" => CP.st = MP.st) \cup
    F("conf_out", (phase = "pack" /\ CP.st = "done" /\ MP.st = "done") => CP.out = MP.out) \cup
    F("conf_perr", (phase = "pack" /\ CP.st = "fail" /\ MP.st = "fail") =>
                      CP.err = (IF T.genericp THEN MP.err ELSE GenErrP(DP, MP.err, T.vec, phase = "pack" /\ p.hookname # ""))) \cup
    F("conf_writes", (phase = "pack" /\ T.genericp /\ CP.st = MP.st) => CP.writes = MP.writes) \cup
    F("conf_pevs", (phase = "pack" /\ T.genericp /\ CP.st = "done" /\ MP.st = "done") => CP.evs = MP.evs) \cup
    \* ---- the properties, on the recorded observations
    F("C04_Exact", C04_Exact(T.raw, CU)) \cup
    \* the code accepted an input on which the specification's unpack fails (bytes that are not there)
    F("C04_OverAccept", ~(CU.st = "done" /\ MU.st = "fail")) \cup
    F("C01_Bytes", T.c01 => C01_Bytes(T.raw, T.start, CU, CP)) \cup
    F("C01_Fill", T.c01 => C01_Fill(T.raw, T.start, CU, CP)) \cup
    F("C01_Len", T.c01 => C01_Len(T.raw, T.start, CU, CP)) \cup
    F("C01_OverlapRaises", T.c01 => C01_OverlapRaises(CU, CP)) \cup
    F("C01_RaiseOnlyOnOverlap", T.c01 => C01_RaiseOnlyOnOverlap(T.start, CU, CP)) \cup
    F("dev_F5", ~Dev_F5(CU, CP)) \cup
    F("dev_F10b", ~Dev_F10b(T.start, CU)) \cup
    F("C10_Same", (T.c01 /\ T.generic /\ T.genericp) => C10_Same(DP, T.start, CU, CP)) \cup
    F("C10_Least", T.generic => C10_Least(DP, CU)) \cup
    F("C12_Shape", (CU.st = "fail" => C12_Shape(DP, CU.err)) /\ (CP.st = "fail" => C12_Shape(DP, CP.err))) \cup
    \* C03 on a recorded pair: cu/cp under one setting of the code-generation options, cu3/cp3 under another
    F("C03_Same", T.has3 => (C03_SameU(CU, T.cu3) /\ C03_SameP(CP, T.cp3))) \cup
    \* C14 on a recorded pair: cu = run on (raw, 0), cu2 = run on (pre \o raw \o post, shift)
    F("C14_Lockstep", (T.has2 /\ ~BeforeStart(T.shift, T.cu2)    \* named deviation F10b reported separately
                       /\ \/ (CU.st = "done" /\ ~OpenEnded(MU))
                          \/ (CU.st = "fail" /\ T.nopost)
                          \* the run on the longer input succeeded touching nothing beyond the region of raw: the run on raw alone
                          \* had every byte it needs (a failure there depends on bytes that are not consumed)
                          \/ (CU.st = "fail" /\ T.cu2.st = "done" /\ T.cu2.endc <= T.shift + Len(T.raw)
                              /\ \A i \in 1..Len(T.cu2.reads) : T.cu2.reads[i].hi <= T.shift + Len(T.raw)))
                          => C14_Lockstep(CU, T.cu2, T.shift)) \cup
    F("dev_F10b", ~(T.has2 /\ Dev_F10b(T.shift, T.cu2)))

Report == Terminal => PrintT(<<"RES", tid, SetToSeq(Failed)>>)
=============================================================================
