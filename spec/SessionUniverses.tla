--------------------------- MODULE SessionUniverses ---------------------------
(***************************************************************************)
(* Programs, inputs, keyword sets and assignments of the session profile    *)
(* (C13).  Kept apart from ValueUniverses: TLC evaluates every constant     *)
(* definition of the modules it loads at start-up.                          *)
(***************************************************************************)
EXTENDS Values

DefaultOptsS == DefaultOpts
U1(f) == IntF(f, 1, FALSE, "default")
WithDflt(f, v) == [f EXCEPT !.dflt = v]

\* -------------------------------------------------------------------- C13 (sessions)
\* two related classes sharing a sub-packet class, list defaults, a prototype with its own defaults
SessPlain ==
    [prog |-> [C0 |-> Class(DefaultOpts, <<U1("t"), [RepCountF("r", U1("e"), SzField("t"), NoCond, 0) EXCEPT !.dflt = <<IntV(7)>>],
                                           [RefF("s", "C2") EXCEPT !.over = <<[n |-> "x", v |-> IntV(5)]>>]>>),
               C1 |-> Class(DefaultOpts, <<U1("a"), RefF("s", "C2"), RepCountF("k", RefF("e", "C2"), SzField("a"), NoCond, 0)>>),
               C2 |-> Class(DefaultOpts, <<WithDflt(U1("x"), 3), U1("y")>>),
               \* a count expression that raises half-way for n = 0: a failed parse must not disturb later ones
               C3 |-> Class(DefaultOpts, <<U1("n"), RepCountF("r", U1("e"), SzExpr(EBin("add", EC(1), EBin("floordiv", EC(2), EF("n"))), "deferred"), NoCond, 0)>>),
               \* a repeated field that a parse skips (its condition is false): every such packet gets a list of its own
               C4 |-> Class(DefaultOpts, <<U1("t"), RepCountF("r", U1("e"), SzConst(1), SzField("t"), 0)>>),
               \* a reference to a class that itself holds a nested packet and a list (two constructions share nothing, at any depth)
               C5 |-> Class(DefaultOpts, <<RefF("w", "C1")>>)],
     classes |-> {"C0", "C1", "C3", "C4", "C5"},
     raws |-> [C0 |-> {<<0, 1, 2>>, <<1, 9, 1, 2>>, <<2, 9>>}, C1 |-> {<<0, 1, 2>>, <<1, 1, 2, 3, 4>>},
               C3 |-> {<<0, 5>>, <<1, 5, 6, 7>>, <<2, 5, 6>>}, C4 |-> {<<0>>, <<1, 5>>}, C5 |-> {<<0, 1, 2>>}],
     kws |-> [C0 |-> {<<>>, <<[n |-> "t", v |-> IntV(1)]>>}, C1 |-> {<<>>}, C3 |-> {<<>>}, C4 |-> {<<>>}, C5 |-> {<<>>}],
     sets |-> [C0 |-> {[n |-> "t", v |-> IntV(2)], [n |-> "r", v |-> ListV(<<IntV(1), IntV(2)>>)]}, C1 |-> {[n |-> "a", v |-> IntV(0)]},
               C3 |-> {[n |-> "n", v |-> IntV(1)]}, C4 |-> {}, C5 |-> {}],
     appendval |-> IntV(4),
     \* the classes are defined locally (prototypes are cloned by deep copy) and the user keeps the prototype instance
     local |-> TRUE, protos |-> {[cls |-> "C0", f |-> "s", a |-> "x", v |-> 99], [cls |-> "C0", f |-> "s", a |-> "y", v |-> 98]}]
\* a body ended by a regex delimiter that is not kept: the field object remembers the match (F2)
SessRegex ==
    [prog |-> [C0 |-> Class(DefaultOpts, <<U1("n"), DataF("body", SzRegex("crlf", FALSE, TRUE)), U1("z")>>),
               C1 |-> Class(DefaultOpts, <<DataF("line", SzRegex("Xplus", FALSE, TRUE)), DataF("rest", SzMarker(<<0>>, FALSE, TRUE))>>),
               \* a bytes delimiter that is neither kept nor consumed (the next field reads it): a constant of the declaration
               C2 |-> Class(DefaultOpts, <<DataF("k", SzMarker(<<10>>, FALSE, FALSE)), U1("nl"), U1("z")>>)],
     classes |-> {"C0", "C1", "C2"},
     raws |-> [C0 |-> {<<1, 65, 13, 10, 2>>, <<1, 66, 10, 3>>, <<1, 65>>}, C1 |-> {<<65, 88, 66, 0>>, <<65, 88, 88, 0>>},
               C2 |-> {<<65, 10, 7>>, <<10, 7>>}],
     kws |-> [C0 |-> {<<>>}, C1 |-> {<<>>}, C2 |-> {<<>>, <<[n |-> "k", v |-> BytesV(<<66>>)]>>}],
     sets |-> [C0 |-> {[n |-> "n", v |-> IntV(2)]}, C1 |-> {[n |-> "rest", v |-> BytesV(<<67>>)]}, C2 |-> {}],
     appendval |-> IntV(4), local |-> FALSE, protos |-> {}]

\* the documented idiom  Ref(type.chooses({1: Sub()}))  : the selector hands out ONE packet instance (F3)
SessSelector ==
    [prog |-> [C0 |-> Class(DefaultOpts, <<U1("t"), RefSelF("v", EF("t"), <<[key |-> 0, alt |-> IntF("", 1, FALSE, "default")],
                                                                          [key |-> 1, alt |-> RefF("", "C2")]>>, "chooses", IntV(0))>>),
               C2 |-> Class(DefaultOpts, <<WithDflt(U1("x"), 3), U1("y")>>)],
     classes |-> {"C0"},
     raws |-> [C0 |-> {<<1, 5, 6>>, <<1, 7, 8>>, <<0, 9>>}],
     kws |-> [C0 |-> {<<>>}],
     sets |-> [C0 |-> {[n |-> "t", v |-> IntV(0)]}],
     appendval |-> IntV(4), local |-> FALSE, protos |-> {}]

\* described fields: a length computed from the body unless the user assigned it (constructor keyword or attribute)
SessDesc ==
    [prog |-> [C0 |-> Class(DefaultOpts, <<[U1("n") EXCEPT !.desc = [kind |-> "autolen", of |-> "d"]],
                                           WithDflt(DataF("d", SzMarker(<<0>>, FALSE, TRUE)), <<65>>), U1("z")>>),
               C1 |-> Class(DefaultOpts, <<U1("a"), [IntF("s", 2, FALSE, "default") EXCEPT !.desc = [kind |-> "auto", e |-> EBin("add", EF("a"), EC(1))]]>>)],
     classes |-> {"C0", "C1"},
     raws |-> [C0 |-> {<<1, 65, 0, 9>>, <<5, 0, 9>>, <<1, 65>>}, C1 |-> {<<1, 0, 2>>, <<3, 1, 1>>}],
     kws |-> [C0 |-> {<<>>, <<[n |-> "n", v |-> IntV(5)]>>}, C1 |-> {<<>>, <<[n |-> "s", v |-> IntV(7)]>>}],
     sets |-> [C0 |-> {[n |-> "n", v |-> IntV(7)], [n |-> "d", v |-> BytesV(<<66, 67>>)]}, C1 |-> {[n |-> "a", v |-> IntV(4)], [n |-> "s", v |-> IntV(300)]}],
     appendval |-> IntV(4), local |-> FALSE, protos |-> {}]

\* thread profile: one class, two inputs (one per thread)
ThreadPlain ==
    [prog |-> [C0 |-> Class(DefaultOpts, <<U1("n"), DataF("d", SzField("n")), DataF("m", SzMarker(<<0>>, FALSE, TRUE)),
                                           RepCountF("r", U1("e"), SzExpr(EBin("add", EF("n"), EC(1)), "deferred"), NoCond, 0), U1("z")>>)],
     raws |-> <<<<1, 65, 66, 0, 7, 8, 9>>, <<2, 65, 66, 67, 67, 0, 1, 2, 3, 4>>>>, f2 |-> FALSE]
\* two runs of bit fields (one and two bytes) between other fields: the members of a run are steps of their own, so the
\* other thread can be scheduled between them
ThreadBits ==
    [prog |-> [C0 |-> Class(DefaultOpts, <<U1("n"), BitsF("h", 3), BitsF("l", 5), U1("m"), BitsF("p", 4), BitsF("q", 12), U1("z")>>)],
     raws |-> <<<<1, 165, 7, 90, 195, 9>>, <<2, 90, 8, 165, 60, 3>>>>, f2 |-> FALSE]
ThreadRegex ==
    [prog |-> [C0 |-> Class(DefaultOpts, <<U1("n"), DataF("body", SzRegex("crlf", FALSE, TRUE)), U1("z")>>)],
     raws |-> <<<<1, 65, 13, 10, 2>>, <<1, 66, 10, 3>>>>, f2 |-> TRUE]
=============================================================================
