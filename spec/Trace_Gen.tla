----------------------------- MODULE Trace_Gen -----------------------------
(***************************************************************************)
(* code -> spec for the block-step machines of GenPacket.tla.  The batch of *)
(* recorded executions has the record shape of Trace_Packet; each record    *)
(* says under which code-generation setting the class ran (generic,         *)
(* genericp, vec).  TLC runs StepUG / StepPG under THAT setting to          *)
(* completion and compares every observable of the recording with it        *)
(* DIRECTLY: the read log (one slice per struct block), the field events    *)
(* (none for the members of a struct block), the error stack as generated   *)
(* code reports it (no GenErr mapping involved), the write log (one insert  *)
(* per block).  One state per record; one RES line per record.              *)
(***************************************************************************)
EXTENDS GenPacket, Json, IOUtils

Traces == JsonDeserialize(IOEnv.TRACE_FILE)

VARIABLE tid
Init == tid \in 1..Len(Traces)
Next == FALSE /\ UNCHANGED tid
Spec == Init /\ [][Next]_tid

T == Traces[tid]
F(name, ok) == IF ok THEN {} ELSE {name}
StripReads(rs) == [i \in 1..Len(rs) |-> [lo |-> rs[i].lo, hi |-> rs[i].hi]]
Fuel == 4000

Failed ==
    LET dp == DescribeProg(T.prog)
        g == [u |-> ~T.generic, p |-> ~T.genericp, vec |-> T.vec]
        mg == RunUG(dp, T.raw, UInit(T.root, T.start), g, Fuel)
        packed == T.cu.st = "done" /\ T.cp.st # "none"
        pg == IF packed
              THEN RunPG(dp, [PInit0(T.root, T.cu.result.vals, IF mg.st = "done" THEN mg.regs ELSE <<>>) EXCEPT !.explicit = {}], g, Fuel)
              ELSE [st |-> "none"]
        MU == UObsOf(mg)
        MP == PObsOf(pg)
        CU == T.cu
        CP == T.cp
    IN
    F("gen_fuel", ~RunningU(mg) /\ (packed => ~RunningP(pg))) \cup
    F("gen_outcome", CU.st = MU.st) \cup
    F("gen_values", (CU.st = "done" /\ MU.st = "done") => CU.result = MU.result) \cup
    F("gen_end", (CU.st = "done" /\ MU.st = "done") => CU.endc = MU.endc) \cup
    F("gen_err", (CU.st = "fail" /\ MU.st = "fail") => CU.err = MU.err) \cup
    F("gen_reads", CU.st = MU.st => StripReads(CU.reads) = StripReads(MU.reads)) \cup
    F("gen_evs", (CU.st = "done" /\ MU.st = "done") => CU.evs = MU.evs) \cup
    F("gen_pack_outcome", packed => CP.st = MP.st) \cup
    F("gen_out", (packed /\ CP.st = "done" /\ MP.st = "done") => CP.out = MP.out) \cup
    F("gen_perr", (packed /\ CP.st = "fail" /\ MP.st = "fail") => CP.err = MP.err) \cup
    F("gen_writes", (packed /\ CP.st = MP.st) => CP.writes = MP.writes) \cup
    F("gen_pevs", (packed /\ CP.st = "done" /\ MP.st = "done") => CP.evs = MP.evs)

Report == PrintT(<<"RES", tid, SetToSeq(Failed)>>)
=============================================================================
