"""Real processes x real file system for the code cache (C15, C16).

A CHILD process defines a same-named packet class `X` from its own source file `m.py` (own directory,
whose `__pkts__` is a symlink to ONE shared cache directory) with every file-system step of
bisturi.codegen.generate_code turned into a synchronisation point: before each step the child reports
the event to the CONTROLLER and waits for `go` (or `crash`: os._exit at that very point; for a write:
after exactly k bytes reached the file).  That is how schedules and crash points chosen by the
specification (or by the harness's own enumeration) are forced on real processes, and how the
file-system-call trace of every run is recorded for trace validation.

Events (in the order the protocol performs them):
  exists        os.path.exists(<module>.py)           -> result
  load          SourceFileLoader(..).load_module()     -> cookie of the loaded module | exception type
  exists_pyc    os.path.exists(<bytecode file>)        -> result
  remove        os.remove(..)
  makedirs      os.makedirs(..)
  open / mkstemp   create/truncate the public file / create a private temporary file
  write         one write() call on that file
  close
  replace       os.replace(tmp, public)
  done          definition finished: outcome own | foreign | failed(<exception>)
"""
import json
import os
import select
import shutil
import signal
import sys
import tempfile
import time

DECLS = {
    # three fields
    "A": "    a = Int(1)\n    b = Int(2)\n    c = Int(1)\n",
    # B and Bp generate source of exactly the same length (the struct format differs: >HB vs >BH)
    "B": "    a = Int(2)\n    b = Int(1)\n",
    "Bp": "    a = Int(1)\n    b = Int(2)\n",
    # H and Hp: the same fields, written the same way; they differ only in the hooks their descriptor DESC brings
    # (before-pack only / before-pack and after-unpack), i.e. in the code generated AROUND the field blocks
    # L and Lp: fields that generated code reaches through the class's field list (no struct code), in either order
    "L": "    a = Int(3)\n    b = Data(until_marker=b'\\x05')\n",
    "Lp": "    a = Data(until_marker=b'\\x03')\n    b = Int(3)\n",
    # P and Pp: widths swapped symmetrically (1,2,2,1 / 2,1,1,2): the generated texts have the same length, the same
    # characters and differences that cancel in position-weighted sums (what a weak checksum of the text would miss)
    "P": "    a = Int(1)\n    b = Int(2)\n    c = Int(2)\n    d = Int(1)\n",
    "Pp": "    a = Int(2)\n    b = Int(1)\n    c = Int(1)\n    d = Int(2)\n",
    # D and Dp: the SAME field lines; the declared default is a named constant with another value (nothing of the difference
    # is in the text of the generated pack / unpack code)
    "D": "    a = Int(1, default=KDEF)\n    b = Int(2)\n",
    "Dp": "    a = Int(1, default=KDEF)\n    b = Int(2)\n",
    # N and Np: field names that differ only outside ASCII
    "N": "    a\u00f1o = Int(1)\n    b = Int(2)\n",
    "Np": "    ano = Int(1)\n    b = Int(2)\n",
    "H": "    a = Int(1).describe(DESC)\n    b = Int(1)\n",
    "Hp": "    a = Int(1).describe(DESC)\n    b = Int(1)\n",
}
PRELUDE = {
    "D": "KDEF = 1\n",
    "Dp": "KDEF = 2\n",
    "H": "from bisturi.descriptor import Auto\nDESC = Auto(lambda pkt: 7)\n",
    "Hp": ("from bisturi.descriptor import Auto\n"
           "class Stamp(Auto):\n"
           "    def sync_after_unpack(self, instance):\n"
           "        setattr(instance, self.real_field_name, 9)\n"
           "DESC = Stamp(lambda pkt: 8)\n"),
}
OPTS = {
    "default": "{'annotate': False}",
    "novec": "{'annotate': False, 'vectorize': False}",
    "packonly": "{'annotate': False, 'generate_for_unpack': False}",
    "off": "{'annotate': False, 'generate_for_pack': False, 'generate_for_unpack': False}",
}
PROBE = bytes([1, 2, 3, 4, 5, 6])


def source(decl, opts="default"):
    return ("from bisturi.packet import Packet\nfrom bisturi.field import Int, Data\n%s\n"
            "class X(Packet):\n    __bisturi__ = %s\n%s" % (PRELUDE.get(decl, ""), OPTS[opts], DECLS[decl]))


def behaviour(cls):
    """what the class does on the probe: discriminates the declarations"""
    from bind import observe
    try:
        p = cls.unpack(PROBE)
        vals = observe.abs_packet(p)["vals"]
        return {"vals": vals, "packed": list(p.pack()), "default": list(cls().pack())}
    except Exception as e:
        return {"error": type(e).__name__}


def reference_behaviours(repo):
    """behaviour of every declaration under the generic field loop (no cache involved)"""
    out = {}
    d = tempfile.mkdtemp(prefix="cacheref_")
    try:
        for k in DECLS:
            import importlib.util
            path = os.path.join(d, "ref_%s.py" % k)
            with open(path, "w", encoding="utf-8") as fh:
                fh.write(source(k, "off"))
            spec = importlib.util.spec_from_file_location("ref_%s" % k, path)
            mod = importlib.util.module_from_spec(spec)
            sys.modules["ref_%s" % k] = mod
            spec.loader.exec_module(mod)
            out[k] = behaviour(mod.X)
    finally:
        shutil.rmtree(d, ignore_errors=True)
    return out


# ------------------------------------------------------------------------------------ child side
def _child_main(rfd, wfd, workdir, decl, opts, bytecode_on, refs, free_run, more_defs=()):
    rf = os.fdopen(rfd, "r")
    wf = os.fdopen(wfd, "w")
    sys.dont_write_bytecode = not bytecode_on

    def send(obj):
        wf.write(json.dumps(obj) + "\n")
        wf.flush()

    def sync(ev, **info):
        """report the event we are ABOUT to perform, wait for the verdict"""
        if free_run:
            return None
        send(dict(ev=ev, **info))
        line = rf.readline()
        if not line:
            os._exit(18)
        cmd = json.loads(line)
        if cmd["cmd"] == "crash" and "after" not in cmd:
            os._exit(17)
        return cmd

    def result(ev, **info):
        send(dict(res=ev, **info))

    import bisturi.codegen as cg
    import importlib.machinery
    real_exists, real_remove, real_makedirs, real_replace = os.path.exists, os.remove, os.makedirs, os.replace
    real_open = open
    cache_dir = os.path.realpath(os.path.join(workdir, "__pkts__"))

    def ours(path):
        try:
            return os.path.realpath(os.path.dirname(os.path.abspath(path))).startswith(cache_dir) or "__pkts__" in str(path)
        except Exception:
            return False

    def p_exists(path):
        if not isinstance(path, str) or not (ours(path) or path.endswith(".pyc")):
            return real_exists(path)
        kind = "exists" if str(path).endswith(".py") else "exists_pyc"
        sync(kind)
        r = real_exists(path)
        result(kind, value=bool(r))
        return r

    def p_remove(path):
        sync("remove")
        return real_remove(path)

    def p_makedirs(path, *a, **k):
        sync("makedirs")
        return real_makedirs(path, *a, **k)

    def p_replace(src, dst, *a, **k):
        sync("replace")
        return real_replace(src, dst, *a, **k)

    class SyncFile:
        def __init__(self, f):
            self.f = f

        def write(self, data):
            cmd = sync("write", n=len(data))
            if cmd and cmd.get("cmd") == "crash":
                k = cmd["after"]
                self.f.write(data[:k])
                self.f.flush()
                os.fsync(self.f.fileno())
                os._exit(17)
            r = self.f.write(data)
            self.f.flush()
            return r

        def close(self):
            sync("close")
            return self.f.close()

        def __enter__(self):
            return self

        def __exit__(self, *a):
            self.close()
            return False

        def __getattr__(self, n):
            return getattr(self.f, n)

    def p_open(path, mode="r", *a, **k):
        if "w" in mode and ours(path):
            sync("open")
            return SyncFile(real_open(path, mode, *a, **k))
        return real_open(path, mode, *a, **k)

    real_mkstemp = tempfile.mkstemp
    real_fdopen = os.fdopen

    def p_mkstemp(*a, **k):
        sync("mkstemp")
        return real_mkstemp(*a, **k)

    def p_fdopen(fd, mode="r", *a, **k):
        f = real_fdopen(fd, mode, *a, **k)
        return SyncFile(f) if "w" in mode else f

    class Loader:
        def __init__(self, name, path):
            self.args = (name, path)

        def load_module(self):
            sync("load")
            try:
                m = importlib.machinery.SourceFileLoader(*self.args).load_module()
            except BaseException as e:
                result("load", raises=type(e).__name__)
                raise
            result("load", cookie=getattr(m, "BISTURI_PACKET_COOKIE", None),      # (informational)
                   fns=[n for n in ("pack_impl", "unpack_impl") if hasattr(m, n)])
            return m

    os.path.exists = p_exists
    os.remove = p_remove
    os.makedirs = p_makedirs
    os.replace = p_replace
    os.rename = p_replace
    cg.open = p_open
    cg.SourceFileLoader = Loader
    tempfile.mkstemp = p_mkstemp
    os.fdopen = p_fdopen

    import importlib
    sys.path.insert(0, workdir)
    earlier = []          # classes defined earlier in this process keep behaving per their own declaration
    mobj = None
    defs = [(decl, opts)] + list(more_defs)
    for i, (dcl, op) in enumerate(defs):
        with real_open(os.path.join(workdir, "m.py"), "w", encoding="utf-8") as fh:
            fh.write(source(dcl, op) + "# definition %d %s\n" % (i, "#" * i))
        # the defining module itself must not be served from stale bytecode (same size, same second)
        shutil.rmtree(os.path.join(workdir, "__pycache__"), ignore_errors=True)
        outcome = None
        cookie = None
        try:
            importlib.invalidate_caches()
            if mobj is None:
                import m as mobj        # the class definition runs the cache protocol
            else:
                mobj = importlib.reload(mobj)
            b = behaviour(mobj.X)
            if b == refs[dcl]:
                outcome = "own"
            else:
                other = [k for k, v in refs.items() if v == b]
                outcome = "foreign:%s" % other[0] if other else "wrong:%s" % json.dumps(b)[:200]
            for fn in ("pack_impl", "unpack_impl"):
                g = getattr(getattr(mobj.X, fn), "__globals__", {})
                cookie = g.get("BISTURI_PACKET_COOKIE", cookie)
            for (d0, cls0) in earlier:
                if behaviour(cls0) != refs[d0]:
                    outcome = "earlier_class_changed:%s" % d0
            earlier.append((dcl, mobj.X))
        except BaseException as e:
            outcome = "failed:%s" % type(e).__name__
        last = i == len(defs) - 1
        wf.write(json.dumps({"ev": "done", "outcome": outcome, "cookie": cookie, "more": not last, "decl": dcl}) + "\n")
        wf.flush()
    os._exit(0)


class Child:
    def __init__(self, base, name, decl, opts="default", bytecode_on=False, refs=None, free_run=False, more_defs=(), same_dir=False):
        self.name, self.decl = name, decl
        if same_dir:
            # several processes defining the class from ONE source directory whose __pkts__ does not exist yet
            self.workdir = os.path.join(base, "same")
            os.makedirs(self.workdir, exist_ok=True)
        else:
            self.workdir = os.path.join(base, name)
            os.makedirs(self.workdir, exist_ok=True)
            link = os.path.join(self.workdir, "__pkts__")
            if not os.path.lexists(link):
                os.symlink(os.path.join(base, "shared"), link)
        c2p_r, c2p_w = os.pipe()
        p2c_r, p2c_w = os.pipe()
        self.pid = os.fork()
        if self.pid == 0:
            os.close(c2p_r)
            os.close(p2c_w)
            try:
                _child_main(p2c_r, c2p_w, self.workdir, decl, opts, bytecode_on, refs, free_run, more_defs)
            finally:
                os._exit(19)
        os.close(c2p_w)
        os.close(p2c_r)
        self.rfd = c2p_r
        self.buf = b""
        self.wf = os.fdopen(p2c_w, "w")
        self.trace = []          # events and results, in order
        self.pending = None      # the event the child is blocked at
        self.outcome = None
        self.outcomes = []
        self.dead = False
        self.crashed = False

    def _read(self, timeout=20):
        while b"\n" not in self.buf:
            r, _, _ = select.select([self.rfd], [], [], timeout)
            if not r:
                raise RuntimeError("child %s does not answer" % self.name)
            chunk = os.read(self.rfd, 65536)
            if not chunk:
                self.dead = True
                return None
            self.buf += chunk
        line, self.buf = self.buf.split(b"\n", 1)
        return json.loads(line)

    def advance(self):
        """read until the child blocks at its next event (or finishes / dies)"""
        while not self.dead and self.pending is None:
            msg = self._read()
            if msg is None:
                break
            if "res" in msg:
                self.trace.append(msg)
            elif msg["ev"] == "done":
                self.trace.append(msg)
                self.outcome = msg["outcome"]
                self.outcomes.append((msg.get("decl"), msg["outcome"]))
                self.cookie = msg.get("cookie")
                if not msg.get("more"):
                    self.dead = True
            else:
                self.pending = msg

    def go(self):
        assert self.pending is not None
        self.trace.append({"ev": self.pending["ev"]})
        self.wf.write(json.dumps({"cmd": "go"}) + "\n")
        self.wf.flush()
        self.pending = None
        self.advance()

    def crash(self, after=None):
        assert self.pending is not None
        cmd = {"cmd": "crash"}
        if after is not None:
            cmd["after"] = after
        self.trace.append({"ev": "crash", "at": self.pending["ev"], "after": after})
        try:
            self.wf.write(json.dumps(cmd) + "\n")
            self.wf.flush()
        except BrokenPipeError:
            pass
        self.pending = None
        self.crashed = True
        self.dead = True
        self.wait()

    def run_to_end(self, after_event=None):
        """after_event(child, event_name): called by the controller after each event was performed"""
        self.advance()
        while self.pending is not None:
            ev = self.pending["ev"]
            self.go()
            if after_event is not None:
                after_event(self, ev)
        self.wait()

    def run_one_definition(self, after_event=None):
        """let the child finish the class definition it is in (it then blocks at the first file-system step of its next one)"""
        n0 = len(self.outcomes)
        self.advance()
        while self.pending is not None and len(self.outcomes) == n0:
            ev = self.pending["ev"]
            self.go()
            if after_event is not None:
                after_event(self, ev)

    def wait(self):
        try:
            os.waitpid(self.pid, 0)
        except ChildProcessError:
            pass
        try:
            self.wf.close()
        except Exception:
            pass
        try:
            os.close(self.rfd)
        except OSError:
            pass


class World:
    """one shared cache directory; children are created in it"""

    def __init__(self, refs, bytecode_on=False):
        self.base = tempfile.mkdtemp(prefix="cachew_")
        os.makedirs(os.path.join(self.base, "shared"))
        self.refs = refs
        self.bytecode_on = bytecode_on
        self.n = 0

    def child(self, decl, opts="default", free_run=False, more_defs=(), same_dir=False):
        self.n += 1
        c = Child(self.base, "c%d" % self.n, decl, opts, self.bytecode_on, self.refs, free_run, more_defs, same_dir)
        if not free_run:
            c.advance()
        return c

    def cache_path(self):
        return os.path.join(self.base, "shared", "m_X.py")

    def seed_file(self, text, mtime=None):
        with open(self.cache_path(), "w") as fh:
            fh.write(text)
        if mtime is not None:
            os.utime(self.cache_path(), (mtime, mtime))

    def close(self):
        shutil.rmtree(self.base, ignore_errors=True)


def generated_source(refs, decl, opts="default", bytecode_on=False):
    """the complete module the current tree generates for a declaration (from a clean cache)"""
    w = World(refs, bytecode_on)
    try:
        c = w.child(decl, opts)
        c.run_to_end()
        with open(w.cache_path()) as fh:
            return fh.read(), c.outcome
    finally:
        w.close()
