"""Binding of Deferred.tla to bisturi/deferred.py: syntax trees -> real operator expressions on real field
objects -> compile_expr / exec_compiled_expr, observed through wrapped instruction callables."""
import operator
import types

OPS = {"add": operator.add, "sub": operator.sub, "mul": operator.mul, "truediv": operator.truediv,
       "floordiv": operator.floordiv, "mod": operator.mod, "pow": operator.pow, "le": operator.le, "lt": operator.lt,
       "ge": operator.ge, "gt": operator.gt, "eq": operator.eq, "ne": operator.ne, "and": operator.and_,
       "or": operator.or_, "xor": operator.xor, "rshift": operator.rshift, "lshift": operator.lshift,
       "getitem": operator.getitem, "neg": operator.neg, "inv": operator.inv}
ARITH = ["add", "sub", "mul", "truediv", "floordiv", "mod", "pow", "and", "or", "xor", "rshift", "lshift"]
CMP = ["lt", "le", "gt", "ge", "eq", "ne"]
K = 3


class Term:
    """symbolic operand: every operator builds a term"""
    __hash__ = None

    def __init__(self, o, a=None):
        self.o = o
        self.a = a

    def js(self):
        return {"o": self.o} if self.a is None else {"o": self.o, "a": [tjs(x) for x in self.a]}


def tjs(x):
    if isinstance(x, Term):
        return x.js()
    if isinstance(x, tuple):
        return {"o": "tuple", "a": [tjs(y) for y in x]}
    if isinstance(x, dict):
        return {"o": "mapping", "a": [tjs(y) for y in x.values()]}
    if x == K and not isinstance(x, bool):
        return {"o": "K"}
    return {"o": "const", "v": repr(x)}


def _is_deferred(x):
    from bisturi.field import Field
    from bisturi.deferred import UnaryExpr, BinaryExpr, NaryExpr
    return isinstance(x, (Field, UnaryExpr, BinaryExpr, NaryExpr))


def _mk(name, swap=False):
    def m(self, other):
        if _is_deferred(other):
            return NotImplemented      # a symbolic CONSTANT next to a field: let the field's (reflected) method defer
        return Term(name, [other, self] if swap else [self, other])
    return m


KSYM = Term("K")      # the constant of a syntax tree, symbolic for the structural half


for _n in ARITH:
    _py = {"and": "and", "or": "or"}.get(_n, _n)
    setattr(Term, "__%s__" % _py, _mk(_n))
    setattr(Term, "__r%s__" % _py, _mk(_n, True))
for _n in CMP:
    setattr(Term, "__%s__" % _n, _mk(_n))
Term.__getitem__ = _mk("getitem")
Term.__neg__ = lambda self: Term("neg", [self])
Term.__invert__ = lambda self: Term("inv", [self])


def canon(t):
    if "a" not in t:
        return t
    args = [canon(x) for x in t["a"]]
    mirror = {"gt": "lt", "ge": "le"}
    if t["o"] in mirror:
        return {"o": mirror[t["o"]], "a": [args[1], args[0]]}
    if t["o"] in ("eq", "ne") and args[0] == {"o": "K"}:
        return {"o": t["o"], "a": [args[1], args[0]]}
    return {"o": t["o"], "a": args}


def reduce_sel(t, alt_index, nary=None):
    """evaluate the chooses / if_true_then_else node of a specification term: Python picks alternative alt_index"""
    if "a" not in t:
        return t
    if t["o"] in ("chooses", "if_true_then_else"):
        return reduce_sel(t["a"][1]["a"][alt_index], alt_index)
    return {"o": t["o"], "a": [reduce_sel(x, alt_index) for x in t["a"]]}


KWNAMES = ["wide", "narrow", "mid"]      # keyword names of chooses(k=..): written order is not alphabetical order
KWNAME_SETS = [["wide", "narrow", "mid"], ["name", "op", "level"], ["self", "args", "k"]]     # any identifier may name an option


class World:
    """real field objects standing for the leaves"""

    def __init__(self):
        from bisturi.field import Int, Data
        self.F = {}
        for leaf, name in (("F1", "f1"), ("F2", "f2"), ("FS", "fs")):
            f = Int(1)
            f.field_name = name
            self.F[leaf] = f
        s = Data(1)
        s.field_name = "s"
        self.F["S"] = s

    def build(self, t, opmap=None, kconst=K):
        """the user's expression: Python's own operator dispatch on the real objects"""
        k = t["s"]
        if k == "L":
            return kconst if t["leaf"] == "K" else self.F[t["leaf"]]
        if k == "U":
            return OPS[(opmap or {}).get(t["op"], t["op"])](self.build(t["a"], opmap, kconst))
        if k == "B":
            return OPS[(opmap or {}).get(t["op"], t["op"])](self.build(t["l"], opmap, kconst), self.build(t["r"], opmap, kconst))
        a = self.build(t["a"], opmap, kconst)
        alts = [self.build(x, opmap, kconst) for x in t["alts"]]
        fn = getattr(a, t["fn"])
        if t["form"] == "list":
            return fn(list(alts))
        if t["form"] == "pos":
            return fn(*alts)
        if t["form"] == "dict":
            return fn({i: x for i, x in enumerate(alts)})
        return fn(**{KWNAMES[i]: x for i, x in enumerate(alts)})        # (KWNAMES: rebound by the check per name set)

    def eager(self, t, env, opmap=None):
        """the same Python expression applied eagerly to the already-parsed values"""
        k = t["s"]
        if k == "L":
            return env.get("K", K) if t["leaf"] == "K" else env[t["leaf"]]
        if k == "U":
            return OPS[(opmap or {}).get(t["op"], t["op"])](self.eager(t["a"], env, opmap))
        if k == "B":
            return OPS[(opmap or {}).get(t["op"], t["op"])](self.eager(t["l"], env, opmap), self.eager(t["r"], env, opmap))
        a = self.eager(t["a"], env, opmap)
        alts = [self.eager(x, env, opmap) for x in t["alts"]]
        if t["fn"] == "chooses":
            if t["form"] in ("list", "pos"):
                return alts[a]
            if t["form"] == "dict":
                return {i: x for i, x in enumerate(alts)}[a]
            return {KWNAMES[i].encode(): x for i, x in enumerate(alts)}[a]
        return alts[0] if bool(a) else alts[1]


def pkt_for(env):
    return types.SimpleNamespace(f1=env["F1"], f2=env["F2"], fs=env["FS"], s=env["S"])


def instr_name(world, num_args, op, name):
    """abstract one real instruction to the specification's [n, push|op]"""
    if num_args == 0:
        if name.startswith("literal-value"):
            return {"n": 0, "push": "K"}
        for leaf, f in world.F.items():
            if name == "field-lookup " + repr(f):
                return {"n": 0, "push": leaf}
        return {"n": 0, "push": "?" + name}
    if name == "arg-list":
        return {"n": num_args, "op": "tuple"}
    if name == "arg-mapping":
        return {"n": num_args, "op": "mapping"}
    for k, v in OPS.items():
        if op is v:
            return {"n": num_args, "op": k}
    return {"n": num_args, "op": getattr(op, "__name__", "?")}


def observe(world, expr, env):
    """-> (prog, steps, result).  The RESULT comes from the public entry point (compile_expr_into_callable applied to a
    packet); the compiled program and the operands of every instruction are observed on a best-effort basis through the
    library's internals (compile_expr / exec_compiled_expr): if those are laid out differently (a refactoring), prog and
    steps are None and only the result is checked."""
    from bisturi import deferred
    result = deferred.compile_expr_into_callable(expr)(pkt_for(env))
    try:
        prog, steps, result2 = _observe_internals(world, expr, env)
    except Exception:
        return None, None, result
    return prog, steps, result


def _observe_internals(world, expr, env):
    """compile with the real compile_expr, execute with the real exec_compiled_expr, log every instruction"""
    from bisturi import deferred
    comp = deferred.compile_expr(expr)
    prog = [instr_name(world, n, op, name) for (n, op, lvl, name) in comp.ops]
    steps = []
    wrapped = []
    for (n, op) in comp.as_list():
        def mk(n=n, op=op):
            if n == 0:
                def w(pkt, *va, **ka):
                    r = op(pkt, *va, **ka)
                    steps.append({"args": [], "result": tjs(r)})
                    return r
            else:
                def w(*args):
                    r = op(*args)
                    steps.append({"args": [tjs(a) for a in args], "result": tjs(r)})
                    return r
            return w
        wrapped.append((n, mk()))
    result = deferred.exec_compiled_expr(pkt_for(env), [], wrapped)
    return prog, steps, result
