"""Observation points installed from the harness (no source hooks in /repo):
TracedBytes (read log), TracedFragments (write log), wrappers of get_fields() tuples
(field events), projections of real objects to the specification's tagged values.
"""
import contextlib
import sys

from bisturi import fragments as _fragments
import bisturi.packet as _packet
from bisturi.packet import Packet, PacketError


_SCAN_FUNCS = ("_unpack_with_string_marker", "_unpack_with_regexp_marker")


class TracedBytes(bytes):
    """bytes whose slicing is logged: [lo, hi) actually returned, `want` = requested length,
    `window` = the slice is the search buffer of a delimiter scan (first slice taken by one of
    Data's scan methods; when those cannot be recognised, an open-ended slice)."""

    def __new__(cls, data, log):
        self = bytes.__new__(cls, data)
        self.log = log
        self._last = (None, -1)
        return self

    def __getitem__(self, idx):
        r = bytes.__getitem__(self, idx)
        if isinstance(idx, slice):
            n = bytes.__len__(self)
            lo, hi, step = idx.indices(n)
            if hi < lo:
                hi = lo
            if idx.start is not None and idx.stop is not None:
                want = idx.stop - idx.start
            else:
                want = hi - lo
            fr = sys._getframe(1)
            if fr.f_code.co_name in _SCAN_FUNCS:
                key = id(fr)
                window = not (self._last[0] == key and fr.f_lasti > self._last[1])
                self._last = (key, fr.f_lasti)
            else:
                window = idx.stop is None
            self.log.append({"lo": lo, "hi": hi, "want": want, "window": window})
        else:
            self.log.append({"lo": idx, "hi": idx + 1, "want": 1, "window": False})
        return r


class TracedFragments(_fragments.Fragments):
    LOG = None   # set by the context manager
    FIRST = None  # the buffer of the pack() under observation: a pack of ANOTHER packet issued from inside a callable
                  # (pack re-entered) works on its own buffer, which is not part of the observed write log

    def __init__(self, *a, **k):
        object.__setattr__(self, "_cur", 0)
        object.__setattr__(self, "_quiet", TracedFragments.LOG is not None and TracedFragments.FIRST is not None)
        if TracedFragments.LOG is not None and TracedFragments.FIRST is None:
            TracedFragments.FIRST = self
        _fragments.Fragments.__init__(self, *a, **k)
        # the assignment in __init__ is not a write of the pack
        if not self._quiet and TracedFragments.LOG is not None and TracedFragments.LOG and TracedFragments.LOG[-1] == {"op": "cur", "p": 0}:
            TracedFragments.LOG.pop()

    @property
    def current_offset(self):
        return self._cur

    @current_offset.setter
    def current_offset(self, v):
        if TracedFragments.LOG is not None and not getattr(self, "_in_insert", False) and not getattr(self, "_quiet", False):
            TracedFragments.LOG.append({"op": "cur", "p": v})
        object.__setattr__(self, "_cur", v)

    def insert(self, position, string):
        object.__setattr__(self, "_in_insert", True)
        try:
            _fragments.Fragments.insert(self, position, string)
        except Exception:
            if TracedFragments.LOG is not None and not self._quiet:
                TracedFragments.LOG.append({"op": "ins", "p": position, "s": list(string), "ok": False})
            raise
        finally:
            object.__setattr__(self, "_in_insert", False)
        if TracedFragments.LOG is not None and not self._quiet:
            TracedFragments.LOG.append({"op": "ins", "p": position, "s": list(string), "ok": True})


@contextlib.contextmanager
def traced_fragments(log):
    old = _packet.Fragments
    _packet.Fragments = TracedFragments
    TracedFragments.LOG = log
    TracedFragments.FIRST = None
    try:
        yield
    finally:
        _packet.Fragments = old
        TracedFragments.LOG = None
        TracedFragments.FIRST = None


def all_packet_classes(mod):
    return [v for v in vars(mod).values() if isinstance(v, type) and issubclass(v, Packet) and v is not Packet]


@contextlib.contextmanager
def field_events(classes, ulog, plog):
    """Wrap the (name, field, pack, unpack) tuples of get_fields(): one event per described field
    that goes through the list (generic loop, loop parts of generated code)."""
    saved = []
    for cls in classes:
        lst = cls.get_fields()
        saved.append((lst, list(lst)))
        cname = cls.__name__
        for i, (name, f, pack, unpack) in enumerate(list(lst)):
            def mk(name=name, pack=pack, unpack=unpack, cname=cname):
                def u(pkt, raw, offset, **k):
                    r = unpack(pkt=pkt, raw=raw, offset=offset, **k)
                    ulog.append({"cls": cname, "name": name, "b": offset, "e": r})
                    return r

                def p(pkt, fragments, **k):
                    r = pack(pkt=pkt, fragments=fragments, **k)
                    if not getattr(fragments, "_quiet", False):     # (not the buffer of a pack() issued by a callable)
                        plog.append({"cls": cname, "name": name, "e": fragments.current_offset})
                    return r
                return p, u
            p, u = mk()
            lst[i] = (name, f, p, u)
    try:
        yield
    finally:
        for lst, orig in saved:
            lst[:] = orig


# ------------------------------------------------------------------ projections
def abs_value(v, visible=False):
    if isinstance(v, bool):
        return {"t": "int", "i": int(v)}
    if isinstance(v, int):
        return {"t": "int", "i": v}
    if isinstance(v, (bytes, bytearray)):
        return {"t": "bytes", "b": list(v)}
    if v is None:
        return {"t": "none"}
    if isinstance(v, (list, tuple)):
        return {"t": "list", "l": [abs_value(x, visible) for x in v]}
    if isinstance(v, Packet):
        return abs_packet(v, visible)
    return {"t": "other", "o": repr(v)}


def abs_packet(p, visible=False):
    """value-bearing fields of a packet, in declaration order, under their visible names;
    a described field shows its hidden (parsed / synced) slot, or with visible=True what the attribute reads as."""
    from bisturi.structural_fields import Move
    from bisturi.field import Em
    vals = []
    for name, f, _, _ in p.__class__.get_fields():
        if isinstance(f, (Move, Em)) or getattr(f, "embed", False):
            continue
        vis = f.descriptor_name if getattr(f, "descriptor_name", None) else name
        try:
            v = getattr(p, vis if visible else name)
        except AttributeError:
            continue
        except Exception as e:      # a computed (described) attribute whose function fails on the current values
            vals.append({"n": vis, "v": {"t": "other", "o": "reading raises %s" % type(e).__name__}})
            continue
        vals.append({"n": vis, "v": abs_value(v, visible)})
    return {"t": "pkt", "cls": p.__class__.__name__, "vals": vals}


def abs_error(e):
    return {"unpacking": bool(e.was_error_found_in_unpacking_phase),
            "stack": [{"off": o, "name": n, "cls": c} for (o, n, c) in e.fields_stack]}


def build_value(mod, v):
    """specification value -> real object (classes taken from the generated module)"""
    t = v["t"]
    if t == "int":
        return v["i"]
    if t == "bytes":
        return bytes(v["b"])
    if t == "none":
        return None
    if t == "list":
        return [build_value(mod, x) for x in v["l"]]
    if t == "pkt":
        cls = getattr(mod, v["cls"])
        return cls(**{e["n"]: build_value(mod, e["v"]) for e in v["vals"]})
    raise ValueError(v)
