"""spec -> code: execute one behaviour of the Packet.tla machines on the real classes and
compare the observables.  Returns a list of mismatch records (clause, detail)."""
import json
import multiprocessing
import os
import sys
import traceback

GEN_OFF = {"generate_for_pack": False, "generate_for_unpack": False}
GEN_DEFAULT = None


def gen_combos():
    out = []
    for gp in (False, True):
        for gu in (False, True):
            for vec in (False, True):
                for ann in (False, True):
                    out.append({"generate_for_pack": gp, "generate_for_unpack": gu, "vectorize": vec, "annotate": ann})
    return out


def norm_reads(log):
    return [{"lo": r["lo"], "hi": r["hi"], "window": r["window"]} for r in log]


def covered(log):
    s = set()
    for r in log:
        s.update(range(r["lo"], r["hi"]))
    return s


def run_unpack(mod, root, raw, start, with_events=True):
    """-> dict(st, result, err, reads, evs, pkt)"""
    from bind import observe
    cls = getattr(mod, root)
    rlog, ulog, plog = [], [], []
    tb = observe.TracedBytes(bytes(raw), rlog)
    out = {"reads": rlog, "evs": ulog}
    classes = observe.all_packet_classes(mod) if with_events else []
    endc = [-1]
    orig_impl = cls.__dict__.get("unpack_impl", None)
    base_impl = cls.unpack_impl

    def impl(self, raw, offset, **k):
        r = base_impl(self, raw, offset, **k)
        if k.get("root") is self:
            endc[0] = r
        return r
    cls.unpack_impl = impl
    try:
        with observe.field_events(classes, ulog, plog):
            pkt = cls.unpack(tb, start)
        out.update(st="done", pkt=pkt, result=observe.abs_packet(pkt), endc=endc[0])
    except observe.PacketError as e:
        out.update(st="fail", err=observe.abs_error(e), exc=e)
        try:
            out["str"] = str(e)
        except Exception as e2:  # rendering must never fail (C12)
            out["str_error"] = "%s: %s" % (type(e2).__name__, e2)
    except Exception as e:
        out.update(st="escape", exc_type=type(e).__name__, exc_msg=str(e)[:200])
    finally:
        pass
    if out["st"] in ("fail", "escape"):
        # unpack(..., silent=True) returns None on any failure
        try:
            r = cls.unpack(bytes(raw), start, silent=True)
            if r is not None:
                out["silent_error"] = "silent=True returned %r for a failing input" % type(r).__name__
        except Exception as e:
            out["silent_error"] = "silent=True raised %s" % type(e).__name__
    if not getattr(cls, "_verif_notbytes_checked", False):
        cls._verif_notbytes_checked = True
        for bad in (bytearray(raw), bytes(raw).decode("latin1"), None, list(raw)):
            for silent in (False, True):
                try:
                    cls.unpack(bad, start, silent=silent)
                    out["notbytes_error"] = "input of type %s was accepted" % type(bad).__name__
                except ValueError:
                    pass
                except Exception as e:
                    out["notbytes_error"] = "input of type %s raised %s instead of ValueError" % (type(bad).__name__, type(e).__name__)
    try:
        pass
    finally:
        if orig_impl is None:
            try:
                del cls.unpack_impl
            except AttributeError:
                pass
        else:
            cls.unpack_impl = orig_impl
    return out


def run_pack(mod, pkt, with_events=True):
    from bind import observe
    wlog, ulog, plog = [], [], []
    out = {"writes": wlog, "evs": plog}
    classes = observe.all_packet_classes(mod) if with_events else []
    try:
        with observe.traced_fragments(wlog), observe.field_events(classes, ulog, plog):
            b = pkt.pack()
        out.update(st="done", out=list(b))
    except observe.PacketError as e:
        out.update(st="fail", err=observe.abs_error(e))
        try:
            out["str"] = str(e)
        except Exception as e2:
            out["str_error"] = "%s: %s" % (type(e2).__name__, e2)
    except Exception as e:
        out.update(st="escape", exc_type=type(e).__name__, exc_msg=str(e)[:200])
    return out


def poison(pkt, depth=0):
    """what an application does with a packet it has parsed and is done comparing: lists are changed IN PLACE (a junk element
    appended, at every depth).  Nothing of it may show in any packet parsed later (an empty list handed out for an absent
    sequence, a default, a scratch list must not be one shared object)."""
    from bind import observe
    if depth > 4:
        return
    for name, _f, _p, _u in type(pkt).get_fields():
        try:
            v = getattr(pkt, name)
        except AttributeError:
            continue
        if isinstance(v, list):
            for x in v:
                if isinstance(x, observe.Packet):
                    poison(x, depth + 1)
            v.append(0x5A5A5A)
        elif isinstance(v, observe.Packet):
            poison(v, depth + 1)


def compare_case(mod, d, case, gen, opts):
    mm, ro, po = _compare_case(mod, d, case, gen, opts)
    if ro is not None and ro.get("st") == "done" and ro.get("pkt") is not None:
        try:
            poison(ro["pkt"])
        except Exception:
            pass
    return mm, ro, po


def _compare_case(mod, d, case, gen, opts):
    """opts: dict of booleans selecting observables: values, cursor, reads, err, pack, writes, events.
    Returns list of (clause, detail)."""
    mm = []
    generic = gen is not None and not gen.get("generate_for_unpack", True)
    generic_p = gen is not None and not gen.get("generate_for_pack", True)
    u = case["u"]
    ro = run_unpack(mod, d["root"], case["raw"], case["start"])
    if ro["st"] == "escape":
        mm.append(("C12.unpack_raises_only_PacketError", "unpack raised %s: %s" % (ro["exc_type"], ro["exc_msg"])))
        return mm, ro, None
    if "str_error" in ro:
        mm.append(("C12.str_total", "str(PacketError) failed: " + ro["str_error"]))
    if "silent_error" in ro:
        mm.append(("C12.silent", ro["silent_error"]))
    if "notbytes_error" in ro:
        mm.append(("C12.not_bytes", ro["notbytes_error"]))
    if ro["st"] == "done" and u["st"] == "fail":
        mm.append(("C04_OverAccept", "code accepted an input the specification rejects"))
    if ro["st"] != u["st"]:
        mm.append(("conf_outcome", "code %s, specification %s%s" % (
            ro["st"], u["st"], (" err=%r" % (ro.get("err"),)) if ro["st"] == "fail" else "")))
        po = None
        if ro["st"] == "done" and opts.get("pack", True):
            # the code accepted an input the specification rejects: its own parse-then-serialise is still recorded, so that
            # the round-trip predicates (C01) are evaluated on what the code did with it
            po = run_pack(mod, ro["pkt"])
        return mm, ro, po
    if u["st"] == "done":
        if opts.get("cursor", True) and ro["endc"] != u["cur"]:
            mm.append(("conf_end", "code %r, specification %r" % (ro["endc"], u["cur"])))
        if opts.get("values", True) and ro["result"] != u["result"]:
            mm.append(("conf_values", "code %s, specification %s" % (json.dumps(ro["result"]), json.dumps(u["result"]))))
        if opts.get("events", True) and generic:
            ev = [{"cls": e["cls"], "name": e["name"], "b": e["b"], "e": e["e"]} for e in ro["evs"]]
            if ev != u["evs"]:
                mm.append(("conf_evs", "code %r, specification %r" % (ev, u["evs"])))
    else:
        if opts.get("err", True):
            if not ro["err"]["unpacking"]:
                mm.append(("C12.phase", "unpack failure flagged as packing"))
            vec = True if gen is None else bool(gen.get("vectorize", True))
            exp = u["err"] if generic else (u["errv"] if vec else u["errn"])      # generated code names the struct block
            if ro["err"]["stack"] != exp:
                mm.append(("conf_err", "code %r, specification %r" % (ro["err"]["stack"], exp)))
    if opts.get("reads", True):
        if generic:
            if norm_reads(ro["reads"]) != norm_reads(u["reads"]):
                mm.append(("conf_reads", "code %r, specification %r" % (norm_reads(ro["reads"]), norm_reads(u["reads"]))))
        elif u["st"] == "done" and covered(ro["reads"]) != covered(u["reads"]):
            mm.append(("conf_read_set", "code %r, specification %r" % (sorted(covered(ro["reads"])), sorted(covered(u["reads"])))))
    po = None
    if u["st"] == "done" and opts.get("pack", True) and case["p"]["st"] != "none":
        p = case["p"]
        po = run_pack(mod, ro["pkt"])
        if po["st"] == "escape":
            mm.append(("C12.pack_raises_only_PacketError", "pack raised %s: %s" % (po["exc_type"], po["exc_msg"])))
        elif p.get("dev") and po["st"] == "fail":
            mm.append(("dev_F5", "pack refused an insert that touches no occupied byte: %r" % (po["writes"][-1:],)))
        elif po["st"] != p["st"]:
            mm.append(("conf_pack_outcome", "code %s, specification %s%s" % (po["st"], p["st"],
                       (" err=%r" % (po.get("err"),)) if po["st"] == "fail" else "")))
        elif p["st"] == "done":
            if po["out"] != p["out"]:
                mm.append(("conf_out", "code %r, specification %r" % (bytes(po["out"]), bytes(p["out"]))))
            if opts.get("events", True) and generic_p and po["evs"] != p["evs"]:
                mm.append(("conf_pevs", "code %r, specification %r" % (po["evs"], p["evs"])))
            if opts.get("writes", True) and generic_p and po["writes"] != p["writes"]:
                mm.append(("conf_writes", "code %r, specification %r" % (po["writes"], p["writes"])))
        else:
            if "str_error" in po:
                mm.append(("C12.str_total", "str(PacketError) failed: " + po["str_error"]))
            if po["err"]["unpacking"]:
                mm.append(("C12.phase", "pack failure flagged as unpacking"))
            vecp = True if gen is None else bool(gen.get("vectorize", True))
            expp = p["err"] if generic_p else (p["errv"] if vecp else p["errn"])
            if opts.get("err", True) and po["err"]["stack"] != expp:
                mm.append(("conf_perr", "pack: code %r, specification %r" % (po["err"]["stack"], expp)))
    return mm, ro, po


# ------------------------------------------------------------------ parallel driver
_W = {}


def _winit(repo, univ, gens, optsd):
    sys.path.insert(0, os.path.dirname(os.path.dirname(os.path.abspath(__file__))))
    from lib import common
    common.bind_repo()
    from bind import declgen
    _W["scratch"] = declgen.Scratch()
    _W["univ"] = univ
    _W["gens"] = gens
    _W["opts"] = optsd
    import atexit
    atexit.register(_W["scratch"].close)


def _wrun(chunk):
    """Replays a chunk; for every execution that differs from the specification anywhere the
    RECORDED observation of that very execution is returned (history-dependent behaviour must be
    judged on the run that showed it, not on a re-run)."""
    from bind import trace_packet as tp
    out = []
    per_kind = {}
    sc = _W["scratch"]
    for case in chunk:
        d = _W["univ"][case["d"] - 1]
        for gi, gen in enumerate(_W["gens"]):
            try:
                mod = sc.load(d["prog"], gen)
                mm, ro, po = compare_case(mod, d, case, gen, _W["opts"])
            except Exception:
                out.append({"d": case["d"], "raw": case["raw"], "start": case["start"], "gen": gen,
                            "clauses": ["harness"], "detail": traceback.format_exc()[-1500:], "rec": None, "extra": {}})
                continue
            kind = tuple(sorted(c for c, _ in mm))
            per_kind[kind] = per_kind.get(kind, 0) + 1
            if mm and per_kind[kind] <= 25:       # (a chunk hands back at most 25 differing executions of each KIND - the set of
                                                  #  differing clauses -: a library that differs everywhere must not fill the memory)
                rec, extra = tp.make_record(d, case["raw"], case["start"], gen, ro, po, _W["opts"].get("c01", True))
                out.append({"d": case["d"], "raw": case["raw"], "start": case["start"], "gen": gen,
                            "clauses": [c for c, _ in mm], "detail": "; ".join("%s: %s" % (c, t[:300]) for c, t in mm[:3]),
                            "rec": rec, "extra": extra})
    return len(chunk), out


def replay_all(univ, cases, gens, opts, procs=14, chunk=200):
    """Replay every case under every code-generation setting in `gens`. Returns (n_runs, mismatches)."""
    from lib import common
    # the cases of one declaration in a fixed pseudo-random order: what one execution leaves behind on the shared
    # class (failing ones included) is then met by every kind of later execution within each chunk
    import hashlib
    cases = sorted(cases, key=lambda c: (c["d"], hashlib.md5(json.dumps([c["raw"], c["start"]]).encode()).hexdigest()))
    chunks = [cases[i:i + chunk] for i in range(0, len(cases), chunk)]
    from bind import declgen, observe, trace_packet      # import errors must surface here, not kill pool workers silently
    ctx = multiprocessing.get_context("fork")
    mism = []
    n = 0
    with ctx.Pool(procs, initializer=_winit, initargs=(common.REPO, univ, gens, opts)) as pool:
        for k, out in pool.imap_unordered(_wrun, chunks):
            n += k * len(gens)
            mism.extend(out)
    return n, mism
