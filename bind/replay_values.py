"""spec -> code for the value-driven profile (MC_Values): construct, pack, re-parse, modify, pack again."""
import json
import multiprocessing
import os
import sys
import tempfile
import traceback

from bind import replay_packet as rp


def build_kwargs(mod, K):
    from bind import observe
    return {e["n"]: observe.build_value(mod, e["v"]) for e in K}


def shared_mutables(a, b):
    """mutable sub-objects (lists, packets) reachable from both packets"""
    from bisturi.packet import Packet

    def reach(p, acc):
        for name, f, _, _ in p.__class__.get_fields():
            try:
                v = getattr(p, name)
            except AttributeError:
                continue
            stack = [v]
            while stack:
                x = stack.pop()
                if isinstance(x, list):
                    acc[id(x)] = x
                    stack.extend(x)
                elif isinstance(x, tuple):
                    stack.extend(x)
                elif isinstance(x, Packet):
                    if id(x) not in acc:
                        acc[id(x)] = x
                        reach(x, acc)
        return acc
    ra, rb = reach(a, {}), reach(b, {})
    return [ra[i] for i in ra if i in rb]


def _OtherPacket():
    from bisturi.packet import Packet
    from bisturi.field import Int
    global _OTHER
    try:
        return _OTHER()
    except NameError:
        pass
    import types
    src = "from bisturi.packet import Packet\nfrom bisturi.field import Int\nclass Other(Packet):\n    __bisturi__ = {'generate_for_pack': False, 'generate_for_unpack': False}\n    a = Int(1)\n"
    import tempfile, importlib.util, os
    dd = tempfile.mkdtemp(prefix="otherpkt_")
    path = os.path.join(dd, "otherpkt.py")
    with open(path, "w") as fh:
        fh.write(src)
    spec = importlib.util.spec_from_file_location("otherpkt", path)
    m = importlib.util.module_from_spec(spec)
    sys.modules["otherpkt"] = m
    spec.loader.exec_module(m)
    _OTHER = m.Other
    return _OTHER()


def _has_tuple(p):
    from bind import observe
    for nm, _f, _p, _u in type(p).get_fields():
        v = getattr(p, nm, None)
        if isinstance(v, tuple):
            return True
        if isinstance(v, observe.Packet) and _has_tuple(v):
            return True
        if isinstance(v, list) and any(isinstance(x, tuple) or (isinstance(x, observe.Packet) and _has_tuple(x)) for x in v):
            return True
    return False


def assign_in_place(cur, new):
    """make packet `cur` hold the values of `new` WITHOUT replacing the mutable objects it already holds (nested packets and
    lists are changed in place, recursively): what a user does with p.a.b.x = 1 or p.a.items.append(..)"""
    from bind import observe
    for nm, _f, _p, _u in type(new).get_fields():
        try:
            nv = getattr(new, nm)
        except AttributeError:
            continue
        ov = getattr(cur, nm, None)
        if isinstance(ov, observe.Packet) and isinstance(nv, observe.Packet) and type(ov) is type(nv):
            assign_in_place(ov, nv)
        elif isinstance(ov, list) and isinstance(nv, list):
            ov[:] = nv
        else:
            try:
                setattr(cur, nm, nv)
            except AttributeError:
                pass


def observe_case(mod, d, c, how="ctor"):
    """-> observation record (JSON-able) of constructing/packing/re-parsing on the real classes"""
    from bind import observe
    cls = getattr(mod, d["root"])
    obs = {"prog": d["prog"], "root": d["root"], "K": c["K"], "mod": c["mod"], "how": how, "eqtest": bool(d.get("eqtest"))}
    try:
        if how == "ctor":
            obj = cls(**build_kwargs(mod, c["K"]))
        else:
            obj = cls()
            for k, v in build_kwargs(mod, c["K"]).items():
                setattr(obj, k, v)
        obs["cv"] = observe.abs_packet(obj)["vals"]
        vis0 = observe.abs_packet(obj, visible=True)["vals"]
        obs["vis"] = [{"n": e["n"], "v": {"t": "other"} if e["v"].get("t") == "other" else e["v"]} for e in vis0]
        # a second construction must not share mutable state with the first (unless the user passed it)
        other = cls()
        obs["shared_with_fresh"] = len(shared_mutables(obj, other))
    except Exception as e:
        obs["ctor_error"] = "%s: %s" % (type(e).__name__, str(e)[:200])
        return obs
    po = rp.run_pack(mod, obj, with_events=False)
    obs["cp"] = {"st": po["st"], "out": po.get("out", []), "err": po["err"]["stack"] if po["st"] == "fail" else [],
                 "unpacking": po["err"]["unpacking"] if po["st"] == "fail" else False}
    if po["st"] == "escape":
        obs["cp"]["escape"] = "%s: %s" % (po["exc_type"], po["exc_msg"])
    obs["cu"] = {"st": "none", "endc": -1, "result": {"t": "none"}}
    obs["ac"] = False
    if po["st"] == "done":
        ro = rp.run_unpack(mod, d["root"], bytes(po["out"]), 0, with_events=False)
        obs["cu"] = {"st": ro["st"], "endc": ro.get("endc", -1) if ro["st"] == "done" else -1,
                     "result": ro.get("result", {"t": "none"})}
        try:
            obs["ac"] = obj.assert_consistency() is True
        except Exception:
            obs["ac"] = False
        # pack() twice gives the same bytes and leaves the values alone
        again = rp.run_pack(mod, obj, with_events=False)
        if again.get("out") != po["out"] or observe.abs_packet(obj, visible=True)["vals"] != vis0:
            obs["repack_differs"] = True
    # ---- equality and repr (C20): q is a second construction, differing in exactly the re-assigned field
    obs["eq"] = {"st": "none"}
    if d.get("eqtest"):
        e = {"st": "ok", "errors": []}
        try:
            q = cls(**build_kwargs(mod, c["K"])) if how == "ctor" else cls()
            if how != "ctor":
                for k, val in build_kwargs(mod, c["K"]).items():
                    setattr(q, k, val)
            if c["mod"]["n"]:
                newv = observe.build_value(mod, c["mod"]["v"])
                cur = getattr(q, c["mod"]["n"], None)
                named = {x["n"] for x in c["K"]}
                if c["mod"]["n"] not in named and isinstance(cur, list) and isinstance(newv, list):
                    cur[:] = newv                       # change the default-constructed list IN PLACE
                elif c["mod"]["n"] not in named and isinstance(cur, observe.Packet) and isinstance(newv, observe.Packet) \
                        and type(cur) is type(newv):
                    assign_in_place(cur, newv)                      # ... or the nested default packet in place, at every depth
                else:
                    setattr(q, c["mod"]["n"], newv)
            e["cv2"] = observe.abs_packet(q, visible=True)["vals"]
            e["cv1"] = observe.abs_packet(obj, visible=True)["vals"]
        except Exception as ex:
            e["st"] = "setup_failed"
            q = None
        if q is not None:
            for label, fn in (("eq", lambda: obj == q), ("ne", lambda: obj != q), ("eq_self", lambda: obj == obj),
                              ("eq_none", lambda: obj == None), ("ne_none", lambda: obj != None),   # noqa: E711
                              ("eq_other", lambda: obj == _OtherPacket()), ("repr", lambda: isinstance(repr(obj), str)),
                              ("repr_q", lambda: isinstance(repr(q), str))):
                try:
                    e[label] = bool(fn())
                except Exception as ex:
                    e["errors"].append("%s raised %s" % (label, type(ex).__name__))
            # a pattern of the class (every slot holds Any, the pseudo-fields' slots too) compares equal to any packet
            # of the class: all value-bearing fields compare equal
            has_desc0 = any(f.get("desc", {}).get("kind", "none") != "none" for f in d["prog"][d["root"]]["fields"])
            pat = None
            if not has_desc0:
                try:
                    from bisturi.pattern_matching import anything_like
                    pat = anything_like(cls)        # (cannot be built for every class, e.g. one with an Em field: not C20's matter)
                except Exception:
                    pat = None
            if pat is not None:
                try:
                    # (the packet on the left: a nested packet answers False to anything that is not of its class, so
                    # only totality and != being the negation are required in that direction)
                    e["any_eq"] = bool(pat == obj) and not bool(pat != obj) and (bool(obj == pat) != bool(obj != pat)) \
                        and isinstance(repr(pat), str)
                except Exception as ex:
                    e["errors"].append("comparison with a pattern raised %s" % type(ex).__name__)
            # two packets parsed from the same bytes; a parsed packet against the constructed one
            if po["st"] == "done":
                try:
                    a = cls.unpack(bytes(po["out"]))
                    b = cls.unpack(bytes(po["out"]))
                    e["parsed_eq"] = bool(a == b) and not bool(a != b)
                    e["parsed_vals"] = observe.abs_packet(a, visible=True)["vals"]
                    fresh = cls(**build_kwargs(mod, c["K"]))      # never packed: hidden slots of described fields not synced
                    if not _has_tuple(obj):     # (a parsed sequence is a list: Python itself says [1, 2] != (1, 2))
                        e["parsed_vs_built"] = bool(a == obj) and bool(a == fresh) and bool(fresh == a)
                    e["repr_parsed"] = isinstance(repr(a), str)
                except observe.PacketError:
                    pass
                except Exception as ex:
                    e["errors"].append("parsed pair raised %s" % type(ex).__name__)
        obs["eq"] = e
    obs["cp2"] = {"st": "none", "out": []}
    if c["mod"]["n"] and not d.get("eqtest"):
        try:
            setattr(obj, c["mod"]["n"], observe.build_value(mod, c["mod"]["v"]))
            p2 = rp.run_pack(mod, obj, with_events=False)
            obs["cp2"] = {"st": p2["st"], "out": p2.get("out", [])}
        except Exception as e:
            obs["cp2"] = {"st": "escape", "out": []}
    return obs


def compare(obs, c):
    """conformance of the observation with the specification's emitted behaviour -> list of clause names"""
    mm = []
    if "ctor_error" in obs:
        return ["ctor_error"]
    if obs["cv"] != c["V"]:
        mm.append("conf_construct")
    nested_desc = any(f.get("desc", {}).get("kind", "none") != "none"
                      for cn, cd in obs["prog"].items() if cn != obs["root"] for f in cd["fields"])
    if "Vvis" in c and not nested_desc and obs["vis"] != c["Vvis"]:      # (VisibleVals is defined for the root's descriptors)
        mm.append("C19_Visible")        # what the attributes read as (described fields: forced by keyword, else computed)
    if obs["shared_with_fresh"]:
        mm.append("C13_shared_default")
    p = c["p"]
    if obs["cp"]["st"] != p["st"]:
        mm.append("conf_pack_outcome")
        if p["st"] == "done" and c.get("consistent"):
            # values that satisfy the declaration, which the specification's pack machine lays out at their declared positions
            # without any collision: the code must serialise them too (C02, positioned declarations included)
            mm.append("C02_PackSucceedsPos")
    elif p["st"] == "done":
        if obs["cp"]["out"] != p["out"]:
            mm.append("conf_out")
    else:
        if obs["cp"]["unpacking"]:
            mm.append("C12.phase")
        exp = p["err"] if obs.get("generic_p") else (p["errv"] if obs.get("vec", True) else p["errn"])
        if obs["cp"]["err"] != exp:
            mm.append("conf_perr")
    if "escape" in obs["cp"]:
        mm.append("C12.pack_raises_only_PacketError")
    u = c["u"]
    if u["st"] != "none" and obs["cp"]["st"] == "done":
        if obs["cu"]["st"] != u["st"]:
            mm.append("conf_outcome")
        elif u["st"] == "done" and (obs["cu"]["result"] != u["result"] or obs["cu"]["endc"] != u["cur"]):
            mm.append("conf_values")
        if c["consistent"] and not obs["ac"] and u["st"] == "done":
            mm.append("conf_assert_consistency")
    if obs.get("repack_differs"):
        mm.append("C13_pack_pure")
    e = obs.get("eq", {"st": "none"})
    if e["st"] == "ok":
        if e["errors"]:
            mm.append("C20_Total")
        else:
            same = e["cv1"] == e["cv2"]
            if e.get("eq") != same or e.get("ne") != (not same):
                mm.append("C20_Structural")
            has_desc = any(f.get("desc", {}).get("kind", "none") != "none" for f in obs["prog"][obs["root"]]["fields"])
            if not has_desc and e.get("eq") != c.get("eqexp", same):
                mm.append("C20_ChangeMakesUnequal")     # changing one field of q must make it unequal to p (and only that)
            if not e.get("eq_self") or e.get("eq_none") or not e.get("ne_none") or e.get("eq_other"):
                mm.append("C20_Structural")
            if e.get("any_eq") is False:
                mm.append("C20_Pattern")
            if "parsed_eq" in e and not e["parsed_eq"]:
                mm.append("C20_ParsedEqual")
            if "parsed_vs_built" in e and e["parsed_vs_built"] != (e["parsed_vals"] == e["cv1"]):
                mm.append("C20_ParsedEqual")
    if c["p2"]["st"] != "none" and not obs.get("eqtest"):
        if obs["cp2"]["st"] != c["p2"]["st"]:
            mm.append("conf_pack2_outcome")
        elif c["p2"]["st"] == "done" and obs["cp2"]["out"] != c["p2"]["out"]:
            mm.append("conf_out2")
    return mm


_W = {}


def _winit(univ, gens, sample_ok=0):
    _W["sample_ok"] = sample_ok
    sys.path.insert(0, os.path.dirname(os.path.dirname(os.path.abspath(__file__))))
    from lib import common
    common.bind_repo()
    from bind import declgen
    _W["scratch"] = declgen.Scratch()
    _W["univ"] = univ
    _W["gens"] = gens
    import atexit
    atexit.register(_W["scratch"].close)


def _wrun(chunk):
    out = []
    per_kind = {}
    n = 0
    for c in chunk:
        d = _W["univ"][c["d"] - 1]
        for gen in _W["gens"]:
            for how in ("ctor", "setattr"):
                n += 1
                try:
                    local = bool(gen and gen.get("local_classes"))
                    g2 = {k: x for k, x in gen.items() if k != "local_classes"} if gen else gen
                    try:
                        mod = _W["scratch"].load(d["prog"], g2 or None, local=local)
                    except RuntimeError as ex:
                        # the library refused to DEFINE the classes of a declaration of the language (e.g. building the prototype
                        # of a reference raised): no packet of the declaration can be constructed at all
                        obs = {"prog": d["prog"], "root": d["root"], "K": c["K"], "mod": c["mod"], "how": how,
                               "ctor_error": "the class definition failed: " + str(ex)[-300:]}
                        out.append({"clauses": ["ctor_error"], "obs": obs, "gen": gen, "d": c["d"], "how": how})
                        continue
                    obs = observe_case(mod, d, c, how)
                    obs["generic_p"] = gen is not None and not gen.get("generate_for_pack", True)
                    obs["vec"] = True if gen is None else bool(gen.get("vectorize", True))
                    mm = compare(obs, c)
                except Exception:
                    out.append({"clauses": ["harness"], "detail": traceback.format_exc()[-1500:], "obs": None, "gen": gen, "d": c["d"]})
                    continue
                kind = tuple(sorted(mm))
                per_kind[kind] = per_kind.get(kind, 0) + 1
                if mm and per_kind[kind] <= 25:      # (at most 25 differing executions of each kind per chunk)
                    out.append({"clauses": mm, "obs": obs, "gen": gen, "d": c["d"], "how": how})
                elif _W.get("sample_ok", 0) > 0 and obs.get("eq", {}).get("st") == "ok":
                    # also hand a sample of agreeing executions to TLC (the predicates are evaluated, not only the diffs)
                    _W["sample_ok"] -= 1
                    out.append({"clauses": [], "obs": obs, "gen": gen, "d": c["d"], "how": how})
    return n, out


def replay_all(univ, cases, gens, procs=14, chunk=150, sample_ok=0):
    import hashlib
    cases = sorted(cases, key=lambda c: (c["d"], hashlib.md5(json.dumps([c["K"], c["mod"]], sort_keys=True).encode()).hexdigest()))
    chunks = [cases[i:i + chunk] for i in range(0, len(cases), chunk)]
    from bind import declgen, observe, trace_packet      # import errors must surface here, not kill pool workers silently
    ctx = multiprocessing.get_context("fork")
    mism = []
    n = 0
    with ctx.Pool(procs, initializer=_winit, initargs=(univ, gens, (sample_ok + procs - 1) // procs)) as pool:
        for k, out in pool.imap_unordered(_wrun, chunks):
            n += k
            mism.extend(out)
    return n, mism


def judge(records, timeout=3000):
    """TLC (Trace_Values) evaluates the specification's functions on the recorded observations."""
    from lib.tlcrun import run_tlc
    recs = []
    for o in records:
        r = {k: o[k] for k in ("prog", "root", "K", "mod", "cv", "cp", "cu", "cp2", "ac")}
        e = o.get("eq", {"st": "none"})
        r["eq"] = {"has": e["st"] == "ok", "errors": len(e.get("errors", [])), "cv1": e.get("cv1", []), "cv2": e.get("cv2", []),
                   "eq": bool(e.get("eq")), "ne": bool(e.get("ne")), "hasparsed": "parsed_eq" in e, "parsed_eq": bool(e.get("parsed_eq")),
                   "parsed_vals": e.get("parsed_vals", []), "parsed_vs_built": bool(e.get("parsed_vs_built", e.get("parsed_vals", []) == e.get("cv1")))}
        r["cp"] = {"st": r["cp"]["st"], "out": r["cp"]["out"], "err": r["cp"]["err"]}
        recs.append(r)
    d = tempfile.mkdtemp(prefix="valtrace_")
    path = os.path.join(d, "traces.json")
    with open(path, "w") as fh:
        json.dump(recs, fh)
    try:
        res = run_tlc("Trace_Values", workers=8, env={"TRACE_FILE": path}, timeout=timeout)
    finally:
        try:
            os.remove(path)
            os.rmdir(d)
        except OSError:
            pass
    return res, [res.res.get(i + 1) for i in range(len(recs))]
