"""Seeded random declarations of the modelled language (same JSON as Decl.tla's records), larger
than the exhaustive universes: more fields, deeper nesting, all byte values in the inputs."""

NOMV = {"kind": "none"}
NODESC = {"kind": "none"}
NOCOND = {"m": "none"}


def Int(name, n=1, signed=False, endian="default"):
    return {"k": "Int", "name": name, "n": n, "signed": signed, "endian": endian, "dflt": 0, "mv": NOMV, "desc": NODESC}


def Data(name, size):
    return {"k": "Data", "name": name, "size": size, "dflt": [], "mv": NOMV}


def Bits(name, w):
    return {"k": "Bits", "name": name, "w": w, "dflt": 0, "mv": NOMV}


def EF(n): return {"e": "f", "n": n}
def EC(v): return {"e": "c", "v": v}
def EBin(op, l, r): return {"e": "bin", "op": op, "l": l, "r": r}
def EUn(op, a): return {"e": "un", "op": op, "a": a}
def EIdx(a, i): return {"e": "idx", "a": a, "i": i}
def EAttr(a, n): return {"e": "attr", "a": a, "n": n}
def Const(v): return {"m": "const", "v": v}
def Fld(f): return {"m": "field", "f": f}
def Expr(e, form): return {"m": "expr", "e": e, "form": form}


REGEXES = ["Xplus", "crlf", "XorY", "Xplus_or_end", "Ystar"]


class Gen:
    def __init__(self, rnd, profile):
        self.r = rnd
        self.profile = profile
        self.prog = {}
        self.nclass = 0
        self.c01 = profile in ("c01", "c14", "position")

    def small_int_expr(self, ints, form=None):
        r = self.r
        f = EF(r.choice(ints))
        form = form or r.choice(["deferred", "lambda"])
        k = r.random()
        if k < 0.3:
            e = f
        elif k < 0.5:
            e = EBin("add", f, EC(r.choice([1, 2])))
        elif k < 0.65:
            e = EBin("sub", f, EC(r.choice([1, 2])))
        elif k < 0.8:
            e = EBin("mul", f, EC(2))
        elif k < 0.9:
            e = EBin("and", f, EC(3))
        else:
            e = EBin("floordiv", EC(6), f)
        return Expr(e, form)

    def count_spec(self, ints):
        r = self.r
        k = r.random()
        if not ints or k < 0.25:
            return Const(r.choice([0, 1, 2, 3]))
        if k < 0.6:
            return Fld(r.choice(ints))
        return self.small_int_expr(ints)

    def cond_spec(self, ints):
        r = self.r
        f = r.choice(ints)
        k = r.random()
        if k < 0.35:
            return Fld(f)
        form = r.choice(["deferred", "lambda"])
        return Expr(EBin(r.choice(["eq", "ne", "gt", "lt"]), EF(f), EC(r.choice([0, 1, 2]))), form)

    def data_size(self, ints):
        r = self.r
        k = r.random()
        if k < 0.25:
            return Const(r.choice([0, 1, 2, 3, 4]))
        if ints and k < 0.5:
            return Fld(r.choice(ints))
        if ints and k < 0.65:
            return self.small_int_expr(ints)
        if k < 0.85:
            b = r.choice([[0], [0], [10], [1, 2], [97, 97], [255]])
            incl = r.random() < 0.4
            consume = True if (incl or self.c01) else r.random() < 0.8
            return {"m": "marker", "b": b, "incl": incl, "consume": consume}
        if k < 0.93:
            rx = r.choice(REGEXES)
            incl = True if self.c01 else r.random() < 0.5
            consume = True if (incl or self.c01) else r.random() < 0.8
            return {"m": "regex", "r": rx, "incl": incl, "consume": consume}
        return {"m": "regex", "r": "EOS", "incl": False, "consume": True}

    def elem(self, name, ints, depth):
        r = self.r
        k = r.random()
        if k < 0.4:
            return Int(name, r.choice([1, 1, 2, 3]), r.random() < 0.3, r.choice(["default", "default", "little", "big"]))
        if k < 0.65:
            sz = self.data_size(ints)
            if sz["m"] == "regex" and sz["r"] == "EOS":
                sz = Const(1)
            return Data(name, sz)
        if depth > 0:
            return {"k": "Ref", "name": name, "cls": self.new_class(depth - 1), "over": [], "mv": NOMV}
        return Int(name)

    def move(self, ints, fld):
        r = self.r
        k = r.random()
        if self.profile not in ("position", "c01", "c14", "mixed") or k < 0.6:
            return fld
        refs = ["innermost-pkt", "current-offset"] + ([] if self.profile == "c14" else ["begins"])
        kind = r.choice(["at", "shift", "aligned", "aligned"])
        if kind == "aligned":
            arg = Const(r.choice([1, 2, 3, 4, 6, 8]))
            ref = r.choice(refs)
        elif kind == "shift":
            arg = Const(r.choice([0, 1, 2, 3, -1])) if (not ints or r.random() < 0.7) else Fld(r.choice(ints))
            ref = "current-offset"
        else:
            arg = Const(r.choice([0, 1, 2, 4, 6, 9])) if (not ints or r.random() < 0.7) else Fld(r.choice(ints))
            ref = r.choice(refs)
        fld = dict(fld)
        fld["mv"] = {"kind": kind, "arg": arg, "ref": ref}
        return fld

    def new_class(self, depth):
        r = self.r
        idx = self.nclass
        self.nclass += 1
        cname = "C%d" % idx
        self.prog[cname] = None   # reserve
        fields = []
        ints = []
        nf = r.randint(1, 5)
        i = 0
        while len(fields) < nf:
            name = "f%d" % i
            i += 1
            k = r.random()
            if k < 0.3 or not fields:
                f = Int(name, r.choice([1, 1, 1, 2, 3]), r.random() < 0.25, r.choice(["default", "default", "little", "big", "network"]))
                if f["n"] == 1:
                    ints.append(name)
                fields.append(self.move(ints[:-1] if f["n"] == 1 else ints, f))
            elif k < 0.5:
                fields.append(self.move(ints, Data(name, self.data_size(ints))))
            elif k < 0.6 and self.profile in ("bits", "mixed", "c01", "c14"):
                total = r.choice([8, 8, 16, 24])
                ws = []
                left = total
                while left > 0:
                    w = r.randint(1, min(left, 12))
                    ws.append(w)
                    left -= w
                for j, w in enumerate(ws):
                    fields.append(Bits("%s_%d" % (name, j), w))
            elif k < 0.78:
                el = self.elem("e", ints, depth)
                al = r.choice([0, 0, 0, 2, 3, 4])
                when = self.cond_spec(ints) if (ints and r.random() < 0.3) else NOCOND
                if r.random() < 0.75 or el["k"] == "Data":
                    f = {"k": "Rep", "name": name, "elem": el, "count": self.count_spec(ints), "until": NOCOND,
                         "when": when, "aligned": al, "dflt": [], "mv": NOMV}
                else:
                    if el["k"] == "Int":
                        u = Expr(EBin("eq", EIdx(EF(name), EC(-1)), EC(0)), "lambda")
                    else:
                        u = Expr(EBin("ge", EUn("len", EF(name)), EC(r.choice([1, 2]))), "lambda")
                    f = {"k": "Rep", "name": name, "elem": el, "count": NOCOND, "until": u,
                         "when": when, "aligned": al, "dflt": [], "mv": NOMV}
                fields.append(self.move(ints, f))
            elif k < 0.88 and ints:
                el = self.elem("e", ints, depth)
                fields.append({"k": "Opt", "name": name, "elem": el, "when": self.cond_spec(ints),
                               "dflt": {"t": "none"}, "mv": NOMV})
            elif k < 0.95 and depth > 0:
                fields.append(self.move(ints, {"k": "Ref", "name": name, "cls": self.new_class(depth - 1), "over": [], "mv": NOMV}))
            elif ints and depth > 0:
                alts = [{"key": 0, "alt": Int("", r.choice([1, 2]))}, {"key": 1, "alt": Data("", Const(r.choice([1, 2])))},
                        {"key": 2, "alt": {"k": "Ref", "name": "", "cls": self.new_class(depth - 1), "over": [], "mv": NOMV}}]
                fields.append({"k": "RefSel", "name": name, "key": EF(r.choice(ints)), "alts": alts[:r.randint(2, 3)],
                               "form": r.choice(["chooses", "lambda"]), "dflt": {"t": "int", "i": 0}, "mv": NOMV})
            else:
                fields.append(Int(name))
        if r.random() < 0.15 and self.profile in ("position", "mixed", "c01"):
            fields.append(self.move(ints, {"k": "Em", "name": "tail%d" % idx, "mv": NOMV}))
        opts = {"endian": r.choice(["none", "none", "little", "big"]),
                "align": r.choice([0, 0, 0, 0, 2, 4]) if self.profile in ("position", "mixed") and not any(f["k"] == "Bits" for f in fields) else 0,
                "sbl": r.choice([-1, -1, -1, 0, 2, 4, 8])}
        self.prog[cname] = {"opts": opts, "fields": fields}
        return cname


def gen_decl(rnd, profile):
    g = Gen(rnd, profile)
    # the root must be C0: allocate it first, children get higher numbers
    g.new_class(rnd.choice([0, 1, 1, 2]))
    return {"prog": g.prog, "root": "C0"}


def walk_fields(d):
    for c, cd in d["prog"].items():
        for f in cd["fields"]:
            yield c, f
            if f["k"] in ("Rep", "Opt"):
                yield c, f["elem"]
            if f["k"] == "RefSel":
                for a in f["alts"]:
                    yield c, a["alt"]


def uses_begins(d):
    for c, cd in d["prog"].items():
        if cd["opts"]["align"]:
            return True
    # per-element alignment of repeated fields is measured from absolute position 0 as well
    if any(f["k"] == "Rep" and f["aligned"] for _, f in walk_fields(d)):
        return True
    return any(f.get("mv", NOMV)["kind"] in ("at", "aligned") and f["mv"]["ref"] == "begins" for _, f in walk_fields(d))


def c01_ok(d):
    for _, f in walk_fields(d):
        if f["k"] == "Data" and f["size"]["m"] in ("marker", "regex"):
            sz = f["size"]
            if not sz["consume"]:
                return False
            if sz["m"] == "regex" and sz["r"] != "EOS" and not sz["incl"]:
                return False
        if f.get("desc", NODESC)["kind"] != "none":
            return False
    return True


ALPHA = [0, 0, 0, 1, 1, 2, 2, 3, 4, 46, 88, 89, 10, 13, 97, 255, 128]


def gen_inputs(rnd, d, mod, k=6):
    """inputs for one declaration: default encoding, small-alphabet random strings, and
    truncations / corruptions of inputs that parsed"""
    cls = getattr(mod, d["root"])
    out = []
    starts = [0] if uses_begins(d) else [0, 0, 1, 3]
    good = []
    try:
        good.append(cls().pack())
    except Exception:
        pass
    for _ in range(k):
        n = rnd.choice([0, 1, 2, 3, 5, 8, 12, 20])
        raw = bytes(rnd.choice(ALPHA) if rnd.random() < 0.85 else rnd.randrange(256) for _ in range(n))
        out.append(raw)
        try:
            p = cls.unpack(raw, silent=True)
            if p is not None:
                good.append(raw)
        except Exception:
            pass
    for g in good[:3]:
        out.append(g)
        if len(g) > 0:
            out.append(g[:rnd.randrange(len(g))])
            i = rnd.randrange(len(g))
            out.append(g[:i] + bytes([rnd.choice(ALPHA)]) + g[i + 1:])
            out.append(g + bytes(rnd.choice(ALPHA) for _ in range(rnd.randint(1, 3))))
    res = []
    for raw in out:
        s = rnd.choice(starts)
        res.append((bytes([238] * s) + raw, s))
    return res
