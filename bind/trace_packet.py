"""code -> spec: record executions of the real classes and have TLC (Trace_Packet.tla) judge them:
conformance with the machines of Packet.tla and the property predicates of PacketProps.tla,
both evaluated by TLC on the recorded observations."""
import json
import os
import tempfile

from bind import replay_packet as rp
from lib.tlcrun import run_tlc

NONE_V = {"t": "none"}


def uobs(ro):
    return {"st": ro["st"], "endc": ro.get("endc", -1) if ro["st"] == "done" else -1,
            "err": ro["err"]["stack"] if ro["st"] == "fail" else [],
            "reads": [{"lo": r["lo"], "hi": r["hi"], "want": r["want"], "window": bool(r["window"])} for r in ro["reads"]],
            "evs": [{"cls": e["cls"], "name": e["name"], "b": e["b"], "e": e["e"]} for e in ro["evs"]],
            "result": ro.get("result", NONE_V)}


def pobs(po):
    if po is None:
        return {"st": "none", "out": [], "err": [], "writes": [], "evs": []}
    return {"st": po["st"], "out": po.get("out", []), "err": po["err"]["stack"] if po["st"] == "fail" else [],
            "writes": po["writes"], "evs": po["evs"]}


def make_record(d, raw, start, gen, ro, po, c01=True):
    generic = gen is not None and not gen.get("generate_for_unpack", True)
    genericp = gen is not None and not gen.get("generate_for_pack", True)
    rec = {"prog": d["prog"], "root": d["root"], "raw": list(raw), "start": start,
           "generic": generic, "genericp": genericp, "vec": True if gen is None else bool(gen.get("vectorize", True)), "c01": bool(c01), "has2": False, "has3": False, "shift": 0,
           "cu": uobs(ro), "cp": pobs(po)}
    extra = {}
    for o, tag in ((ro, "unpack"), (po, "pack")):
        if o is None:
            continue
        if o["st"] == "escape":
            extra[tag + "_escape"] = "%s: %s" % (o["exc_type"], o["exc_msg"])
        if "str_error" in o:
            extra[tag + "_str_error"] = o["str_error"]
        if "silent_error" in o:
            extra["silent_error"] = o["silent_error"]
        if "notbytes_error" in o:
            extra["notbytes_error"] = o["notbytes_error"]
    return rec, extra


def record(mod, d, raw, start, gen, c01=True, pack=True):
    ro = rp.run_unpack(mod, d["root"], raw, start)
    po = None
    if ro["st"] == "done" and pack:
        po = rp.run_pack(mod, ro["pkt"])
    return make_record(d, raw, start, gen, ro, po, c01)


def judge(records, timeout=3000, workers=8, module="Trace_Packet"):
    """-> (TLCResult, {index (0-based): [failed clause names]})"""
    d = tempfile.mkdtemp(prefix="pktrace_")
    path = os.path.join(d, "traces.json")
    with open(path, "w") as fh:
        json.dump(records, fh)
    try:
        res = run_tlc(module, workers=workers, env={"TRACE_FILE": path}, timeout=timeout)
    finally:
        try:
            os.remove(path)
            os.rmdir(d)
        except OSError:
            pass
    out = {}
    for i in range(len(records)):
        out[i] = res.res.get(i + 1)
    return res, out
