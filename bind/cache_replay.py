"""Forcing behaviours of CodeCache.tla on real processes (cache_harness) and abstracting the real
file system back to the specification's state."""
import hashlib
import importlib.util
import json
import os
import py_compile
import re
import sys
import time

from bind import cache_harness as ch

EVENTS_OF = {"Exists": ["exists"], "Load1": ["load"], "RmPyc": ["exists_pyc", "remove"], "Mkdirs": ["makedirs"],
             "Open": ["mkstemp", "open"], "Write": ["write"], "Close": ["close"], "Replace": ["replace"],
             "Load2": ["load"], "Fallback": [], "Install": []}
T0 = 1_600_000_000


class Sources:
    """generated modules of the current tree per declaration, their cookies, and torn variants in the
    legacy layout (imports, cookie, pack, unpack: what a pre-repair writer leaves behind)"""

    def __init__(self, refs):
        self.src = {}
        self.cookie = {}
        for d in ch.DECLS:
            s, out = ch.generated_source(refs, d)
            self.src[d] = s
            # however the library writes the identification of a module into it (an assignment, a comment, ...)
            self.cookie[d] = cookie_of_text(s) or ("sha1:" + hashlib.sha1(s.encode()).hexdigest())
        self.by_cookie = {v: k for k, v in self.cookie.items()}

    def parts(self, d):
        """(imports, cookie line, functions) of the complete module, for the torn variants in the LEGACY layout"""
        s = self.src[d]
        lines = s.splitlines(True)
        cis = [i for i, l in enumerate(lines) if COOKIE_NAME in l]
        cookie = lines[cis[0]] if cis else ""
        rest = [l for i, l in enumerate(lines) if not (cis and i == cis[0])]
        pis = [i for i, l in enumerate(rest) if l.startswith("def ")]
        pi = pis[0] if pis else len(rest)
        return "".join(rest[:pi]), cookie, "".join(rest[pi:])

    def variant(self, d, shape):
        imports, cookie, code = self.parts(d)
        if shape == "complete":
            return self.src[d]
        if shape == "empty":
            return ""
        if shape == "nocookie":
            return imports
        if shape == "cookie_nofn":
            return imports + cookie
        if shape == "broken":
            return imports + cookie + "\ndef pack_impl(pkt, fragments, **k):\n   k['innermost-pkt-pos'] = (fragm"
        raise ValueError(shape)


COOKIE_NAME = "BISTURI_PACKET_COOKIE"
_COOKIE_RE = re.compile(COOKIE_NAME + r"\W*([0-9A-Za-z]+)")


def cookie_of_text(text):
    m = _COOKIE_RE.search(text)
    return m.group(1) if m else None


def classify(text, sources):
    """real file content -> (owner, shape) of the specification"""
    if text == "":
        return None, "empty"
    try:
        code = compile(text, "<cache>", "exec")
    except (SyntaxError, ValueError):
        return None, "broken"
    ns = {}
    try:
        exec(code, ns)
    except Exception:
        return None, "broken"
    cookie = ns.get(COOKIE_NAME) or cookie_of_text(text)
    if cookie is None and text in sources.src.values():
        cookie = "sha1:" + hashlib.sha1(text.encode()).hexdigest()
    owner = sources.by_cookie.get(cookie)
    if cookie is None:
        return None, "nocookie"
    if "pack_impl" in ns and "unpack_impl" in ns:
        return owner, "complete"
    return owner, "cookie_nofn"


def pyc_path(world):
    return importlib.util.cache_from_source(world.cache_path())


def abs_fs(world, sources):
    p = world.cache_path()
    if not os.path.exists(p):
        st = {"exists": False, "owner": "none", "shape": "none"}
    else:
        with open(p) as fh:
            owner, shape = classify(fh.read(), sources)
        st = {"exists": True, "owner": owner or "?", "shape": shape}
    st["pyc"] = os.path.exists(pyc_path(world))
    return st


def seed(world, sources, init):
    f = init["file"]
    if f["exists"]:
        world.seed_file(sources.variant(f["owner"], f["shape"]), mtime=T0)
    pyc = init["pyc"]
    if pyc["exists"]:
        # bytecode compiled from the complete module of pyc.owner, stamped (size of that source, second 0)
        tmp = world.cache_path() + ".seed"
        with open(tmp, "w") as fh:
            fh.write(sources.src[pyc["owner"]])
        os.utime(tmp, (T0, T0))
        os.makedirs(os.path.dirname(pyc_path(world)), exist_ok=True)
        py_compile.compile(tmp, cfile=pyc_path(world), dfile=world.cache_path(), doraise=True)
        os.remove(tmp)


def same_fs(real, spec):
    if real["exists"] != spec["exists"] or real["pyc"] != spec["pyc"]:
        return False
    if not spec["exists"]:
        return True
    if real["shape"] != spec["shape"]:
        return False
    if spec["shape"] in ("complete", "cookie_nofn") and real["owner"] != spec["owner"]:
        return False
    return True


def replay(behaviour, refs, sources, bytecode_on):
    """-> dict(followed, mismatches[list of (step, what)], outcomes, traces)"""
    world = ch.World(refs, bytecode_on)
    res = {"followed": True, "mismatches": [], "outcomes": {}, "traces": {}}
    try:
        seed(world, sources, behaviour["init"])
        kids = {p: world.child(d) for p, d in sorted(behaviour["init"]["decls"].items())}
        clock = 0
        for i, st in enumerate(behaviour["sched"]):
            a, p = st["a"], st["p"]
            if a == "Tick":
                clock += 1
                continue
            c = kids[p]
            if a == "Crash":
                if c.pending is not None:
                    c.crash()
                else:
                    res["followed"] = False
                    break
                continue
            evs = EVENTS_OF[a]
            if evs:
                if c.pending is None or c.pending["ev"] not in evs:
                    if a == "RmPyc":
                        pass        # nothing to remove: no file-system call at all
                    else:
                        res["followed"] = False
                        res["mismatches"].append((i, "process %s is at %r, the specification's next action is %s" % (
                            p, c.pending and c.pending["ev"], a)))
                        break
                else:
                    if a in ("RmPyc",):
                        while c.pending is not None and c.pending["ev"] in evs:
                            c.go()
                    else:
                        c.go()
                    if a in ("Write", "Open", "Replace") and os.path.exists(world.cache_path()):
                        os.utime(world.cache_path(), (T0 + clock, T0 + clock))
            real = abs_fs(world, sources)
            if not same_fs(real, st["fs"]):
                res["mismatches"].append((i, "after %s(%s): file system %r, specification %r" % (a, p, real, st["fs"])))
        # let everything that is still alive finish (in schedule order of first appearance)
        for p, c in kids.items():
            if not c.dead:
                c.run_to_end()
            else:
                c.wait()
            res["outcomes"][p] = "crashed" if c.crashed else c.outcome
            res["traces"][p] = c.trace
    finally:
        world.close()
    return res
