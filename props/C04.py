"""C04 - see props/_pk.py (profile table) and lib/packetprofile.py (procedure); DESIGN.md section 5."""
from props import _pk


def run(tier, seed):
    return _pk.run("C04", tier, seed)
