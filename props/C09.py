"""C09 - deferred field expressions mean what the same Python expression means (DESIGN.md 5.9).
Deferred.tla: syntax trees -> Build (operator-method rules, reflected and mirrored dispatch) -> Compile (postfix) ->
stack machine, on TERMS of the free algebra; TLC enumerates every well-formed tree up to a bound on operator nodes
and checks Inv_C09_Result / Inv_C09_Depth.  Every tree is built with the real operators on real field objects,
compiled and executed by the real deferred.py: (i) on symbolic operands against TLC's term and the eager Python
evaluation, with every instruction's operands observed; (ii) with every operator of the tables substituted, on
concrete operand samples against eager Python (same value or same exception type); random larger trees are recorded
and validated by TLC (Trace_Deferred)."""
import json
import os
import random
import tempfile
from concurrent.futures import ThreadPoolExecutor

from lib import common
from lib.tlcrun import run_tlc

SAMPLES = [(7, 2), (5, 0), (0, 3), (-1, 255), (2, -1), (255, 8)]      # (5, 0): faults (division by zero) early in the order


def mc(maxops, rich, nparts, allforms):
    def cfg(k):
        return ("SPECIFICATION Spec\nCONSTANTS MaxOps = %d Part = %d NParts = %d Rich = %s AllForms = %s\nINVARIANT Inv_C09_Depth\n"
                "INVARIANT Inv_C09_Result\nINVARIANT Emit\n" % (maxops, k, nparts, "TRUE" if rich else "FALSE", "TRUE" if allforms else "FALSE"))
    with ThreadPoolExecutor(nparts) as ex:
        parts = list(ex.map(lambda k: run_tlc("MC_Deferred", cfg_text=cfg(k), workers=2, heap="3g", timeout=3000), range(nparts)))
    res = parts[0]
    for r in parts[1:]:
        res.violation = res.violation or r.violation
        res.generated += r.generated
        res.distinct += r.distinct
        res.emits.extend(r.emits)
    if res.violation:
        raise common.MachineryFailure("MC_Deferred violates %s:\n%s" % (res.violation["name"], res.violation["trace_text"][-2000:]))
    return res


def has_nary(t):
    if t["s"] == "N":
        return t
    for k in ("a", "l", "r"):
        if k in t and isinstance(t[k], dict):
            r = has_nary(t[k])
            if r:
                return r
    return None


def nary_kinds(t):
    """the (function, call form) of every n-ary node of a tree"""
    out = set()
    if t["s"] == "N":
        out.add((t["fn"], t["form"]))
    for k in ("a", "l", "r"):
        if k in t and isinstance(t[k], dict):
            out |= nary_kinds(t[k])
    for x in t.get("alts", []):
        out |= nary_kinds(x)
    return out


def rd_kw(i):
    from bind import replay_deferred as rd
    return rd.KWNAMES[i].encode()      # (rd.KWNAMES is rebound per name set by the concrete part)


def scenarios(nary):
    """(selector value, index of the alternative Python picks) for a tree with one n-ary node"""
    if nary is None:
        return [(0, 0)]
    if nary["fn"] == "chooses":
        if nary["form"] == "kw":
            return [(rd_kw(0), 0), (rd_kw(1), 1)]
        if nary["form"] in ("list", "pos"):
            return [(0, 0), (1, 1), (-1, 1), (-2, 0)]      # a negative selector counts from the end, as Python indexing does
        return [(0, 0), (1, 1)]
    # if_true_then_else(condition, (value_if_true, value_if_false)): truthiness, not 0/1
    return [(0, 1), (1, 0), (4, 0), (-2, 0)]


def same_outcome(f, g):
    """(value, None) or (None, exception type name) for both; equal?"""
    def run(h):
        try:
            return ("v", h())
        except Exception as e:
            return ("e", type(e).__name__)
    a, b = run(f), run(g)
    if a[0] != b[0]:
        return False, a, b
    if a[0] == "v":
        return (a[1] == b[1] and type(a[1]) == type(b[1])), a, b
    return a[1] == b[1], a, b


def random_tree(rnd, n, world_leaves=("F1", "F2", "K")):
    from bind import replay_deferred as rd
    if n == 0:
        return {"s": "L", "leaf": rnd.choice(world_leaves)}
    k = rnd.random()
    if k < 0.15:
        return {"s": "U", "op": rnd.choice(["neg", "inv"]), "a": random_tree(rnd, n - 1)}
    if k < 0.27:
        i = rnd.randint(0, n - 1)
        return {"s": "N", "fn": rnd.choice(["chooses", "if_true_then_else"]), "form": rnd.choice(["list", "pos", "dict"]),
                "a": {"s": "L", "leaf": "FS"}, "alts": [random_tree(rnd, i), random_tree(rnd, n - 1 - i)]}
    i = rnd.randint(0, n - 1)
    return {"s": "B", "op": rnd.choice(rd.ARITH + rd.CMP), "l": random_tree(rnd, i), "r": random_tree(rnd, n - 1 - i)}


def well_formed(t):
    """mirror of Deferred!WellFormed for the random generator (both operands constant / constant under unary)"""
    if t["s"] == "L":
        return True
    if t["s"] == "U":
        return well_formed(t["a"]) and not (t["a"]["s"] == "L" and t["a"]["leaf"] == "K")
    if t["s"] == "B":
        bothk = all(x["s"] == "L" and x["leaf"] == "K" for x in (t["l"], t["r"]))
        return well_formed(t["l"]) and well_formed(t["r"]) and not bothk
    if t["fn"] == "if_true_then_else" and t["form"] == "dict":
        return False
    return all(well_formed(x) for x in t["alts"])


def run(tier, seed):
    v = common.Verdict("C09", tier, seed)
    common.bind_repo()
    from bind import replay_deferred as rd
    from bisturi import deferred
    quick = tier == "quick"
    # (4 operator nodes is ~110k trees: TLC needs over 45 minutes just to build and order that set; thorough goes wider instead)
    res = mc(3, False, 8, not quick)
    v.add_tlc(res, "MC_Deferred all well-formed trees with <= 3 operator nodes (%s)" % ("chooses in list form" if quick else "every call form"))
    res2 = mc(2, True, 8, True) if quick else mc(3, True, 8, False)
    v.add_tlc(res2, "MC_Deferred richer operator set, <= %d operator nodes" % (2 if quick else 3))
    world = rd.World()
    trees = res.emits + res2.emits
    if quick:
        res3 = mc(2, False, 8, True)
        v.add_tlc(res3, "MC_Deferred every call form of chooses / if_true_then_else, <= 2 operator nodes")
        seen_t = {json.dumps(c["tree"], sort_keys=True) for c in trees}
        trees += [c for c in res3.emits if json.dumps(c["tree"], sort_keys=True) not in seen_t]
    n_exec = 0
    drift = {}
    for c in trees:
        t = c["tree"]
        nary = has_nary(t)
        v.count_case(json.dumps(t, sort_keys=True), nontrivial=len(c["prog"]) >= 4)
        if len(nary_kinds(t)) > 1:
            # two n-ary nodes of different kinds share the one selector field: no selector value means the same alternative
            # for both (a keyword mapping wants b"k0", a list wants 0; if_true_then_else picks by truth). The compiled
            # program is still compared; the selector scenarios are run for trees whose n-ary nodes are of one kind.
            try:
                built = world.build(t, None, rd.KSYM)
                deferred.compile_expr_into_callable(built)
            except Exception as e:
                v.violation("C09_Result", "building the expression raised %s: %s" % (type(e).__name__, str(e)[:200]), {"tree": t})
                continue
            try:
                prog = [rd.instr_name(world, n, op, name) for (n, op, lvl, name) in deferred.compile_expr(built).ops]
            except Exception:
                drift["internals_not_observable"] = drift.get("internals_not_observable", 0) + 1
                continue
            n_exec += 1
            if prog != c["prog"]:
                drift["C09_Program"] = drift.get("C09_Program", 0) + 1
            continue
        for selv, idx in scenarios(nary):
            env = {"F1": rd.Term("F1"), "F2": rd.Term("F2"), "S": rd.Term("S"), "FS": selv, "K": rd.KSYM}
            try:
                expr = world.build(t, None, rd.KSYM)
                prog, steps, result = rd.observe(world, expr, env)
            except Exception as e:
                v.violation("C09_Result", "building / running the expression raised %s: %s" % (type(e).__name__, str(e)[:200]), {"tree": t})
                continue
            n_exec += 1
            if prog is None:
                drift["internals_not_observable"] = drift.get("internals_not_observable", 0) + 1
            elif prog != c["prog"]:
                # (how the library compiles an expression is its own business: reported, not a violation)
                drift["C09_Program"] = drift.get("C09_Program", 0) + 1
            got = rd.canon(rd.tjs(result))
            exp = rd.canon(rd.reduce_sel(c["result"], idx, nary))
            eager = rd.canon(rd.tjs(world.eager(t, env)))
            if got != exp or got != eager:
                v.violation("C09_Result", "deferred %s, specification %s, eager Python %s" % (
                    json.dumps(got), json.dumps(exp), json.dumps(eager)), {"tree": t, "selector": idx})
                continue
            # operands of every instruction, as the specification's stack predicts them
            for pc, st in enumerate(steps if (steps is not None and prog == c["prog"]) else []):
                ins = c["prog"][pc]
                if ins["n"] > 0:
                    before = c["hist"][pc - 1]
                    want = list(reversed(before[:ins["n"]]))
                    if nary is None and st["args"] != want:
                        drift["C09_Operands"] = drift.get("C09_Operands", 0) + 1
                        break
    v.cov["traces_validated_against_impl"] += n_exec
    if drift:
        v.cov.setdefault("model_drift_not_owned", {}).update(drift)
    for c in trees[:: max(1, len(trees) // 3)][:3]:
        v.sample({"direction": "spec->code", "tree": c["tree"], "program": c["prog"], "result_term": c["result"]})
    # (ii) every operator of the tables at the positions of the representatives, concrete operands vs eager Python
    subst = [dict(sub=a, lt=c, neg=u) for a, c, u in zip(rd.ARITH, rd.CMP * 2, ["neg", "inv"] * 6)] + [dict(lshift=o) for o in ("rshift", "pow")]
    conc = 0
    def n_ops(t):
        return sum(1 for i in t["prog"] if i["n"] > 0 and i.get("op") not in ("tuple", "mapping"))
    for c in [x for x in trees if len(x["prog"]) <= 7]:
        t = c["tree"]
        nary = has_nary(t)
        if len(nary_kinds(t)) > 1:
            continue
        namesets = rd.KWNAME_SETS if (nary and nary["form"] == "kw") else [rd.KWNAME_SETS[0]]
        for sm, kwn in [(sm, kwn) for sm in (subst[: (4 if quick else len(subst))] if nary else subst) for kwn in namesets]:
            rd.KWNAMES = kwn
            if n_ops(c) > 1 and (set(sm.values()) & {"pow", "lshift"}):
                continue      # nested powers / shifts of the operand samples are astronomically large numbers
            # compiled ONCE and evaluated on every sample in turn, like a packet class does: an evaluation that
            # raises half-way must not disturb the next ones
            try:
                fn = deferred.compile_expr_into_callable(world.build(t, sm))
            except Exception as e:
                v.violation("C09_Result", "building raised %s" % type(e).__name__, {"tree": t, "ops": sm})
                continue
            for (a, b) in SAMPLES[: (3 if quick else len(SAMPLES))]:
                for selv, idx in scenarios(nary):
                    env = {"F1": a, "F2": b, "S": b"\x05\x06\x07\x08", "FS": selv}
                    ok, got, exp = same_outcome(lambda: fn(rd.pkt_for(env)), lambda: world.eager(t, env, sm))
                    conc += 1
                    if not ok:
                        v.violation("C09_Concrete", "deferred %r, eager Python %r (F1=%r F2=%r selector=%r ops=%r)" % (
                            got, exp, a, b, env["FS"], sm), {"tree": t, "ops": sm, "env": [a, b]})
    rd.KWNAMES = rd.KWNAME_SETS[0]
    # (ii') expressions over the same fields that differ only in a constant, compiled one after the other in this process
    # (constants whose hashes coincide, like -1 and -2, included): each keeps its own meaning
    def has_k(t):
        return (t["s"] == "L" and t["leaf"] == "K") or any(has_k(t[k]) for k in ("a", "l", "r") if isinstance(t.get(k), dict)) \
            or any(has_k(x) for x in t.get("alts", []))
    for c in [x for x in trees if len(x["prog"]) <= 5 and has_k(x["tree"]) and len(nary_kinds(x["tree"])) <= 1]:
        t = c["tree"]
        nary = has_nary(t)
        eqsubst = [x for x in subst if x.get("lt") in ("eq", "ne")][:2]
        # constants that are EQUAL but not the same (2.0 before 2, True before 1): each keeps its own type; the largest value of
        # the field's width (255 for the one-byte fields of the world) against a field that holds exactly that value
        consts = [(sm, kc, (5, 3)) for sm in subst[:2] for kc in (-1, -2, 7)] + [(sm, kc, (5, 3)) for sm in eqsubst for kc in (None, 0, False)] \
            + [(sm, kc, (5, 3)) for sm in subst[:3] for kc in (2.0, 2, True, 1)] \
            + [(sm, 255, f12) for sm in subst[:6] for f12 in ((255, 254), (254, 255))]
        for sm, kc, (f1v, f2v) in consts:
            if True:
                try:
                    fn = deferred.compile_expr_into_callable(world.build(t, sm, kc))
                except Exception as e:
                    v.violation("C09_Result", "building raised %s" % type(e).__name__, {"tree": t, "ops": sm, "K": kc})
                    continue
                for selv, idx in scenarios(nary)[:2]:
                    env = {"F1": f1v, "F2": f2v, "S": b"\x05\x06\x07\x08", "FS": selv, "K": kc}
                    ok, got, exp = same_outcome(lambda: fn(rd.pkt_for(env)), lambda: world.eager(t, env, sm))
                    conc += 1
                    if not ok:
                        v.violation("C09_Concrete", "deferred %r, eager Python %r (constant %r, F1=%r F2=%r selector=%r ops=%r)" % (
                            got, exp, kc, f1v, f2v, env["FS"], sm), {"tree": t, "ops": sm, "K": repr(kc)})
    v.cov["concrete_evaluations"] = conc
    v.cov["traces_validated_against_impl"] += conc
    # (iii) code -> spec: random larger trees, recorded and validated by TLC
    rnd = random.Random(seed)
    recs = []
    tries = 0
    while len(recs) < (300 if quick else 3000) and tries < 20000:
        tries += 1
        t = random_tree(rnd, rnd.randint(2, 7))
        if not well_formed(t):
            continue
        nary = has_nary(t)
        env = {"F1": rd.Term("F1"), "F2": rd.Term("F2"), "S": rd.Term("S"), "FS": rnd.randint(0, 1), "K": rd.KSYM}
        try:
            prog, steps, result = rd.observe(world, world.build(t, None, rd.KSYM), env)
        except Exception as e:
            continue      # e.g. a selector nested where a Term cannot index: not a recorded execution
        if nary is not None or prog is None:
            continue      # recorded runs with concrete selectors are reduced terms; validated in part (i)
        recs.append({"tree": t, "prog": prog, "steps": steps, "result": rd.tjs(result)})
    d = tempfile.mkdtemp(prefix="c09_")
    path = os.path.join(d, "t.json")
    with open(path, "w") as fh:
        json.dump(recs, fh)
    try:
        tres = run_tlc("Trace_Deferred", workers=4, env={"TRACE_FILE": path})
    finally:
        os.remove(path)
        os.rmdir(d)
    v.add_tlc(tres, "Trace_Deferred on %d recorded executions of random trees (<= 7 operator nodes, full operator tables)" % len(recs), exhaustive=False)
    for i, r in enumerate(recs):
        names = tres.res.get(i + 1)
        if names is None:
            raise common.MachineryFailure("Trace_Deferred gave no verdict for record %d" % i)
        v.cov["traces_validated_against_impl"] += 1
        v.count_case(json.dumps(r["tree"], sort_keys=True), nontrivial=True)
        mine = [x for x in names if x in ("C09_RecordedResult",)]
        if mine:
            v.violation(mine[0], "recorded execution rejected by the specification: %s" % names, r)
        for x in names:
            if x not in mine:       # how the library compiles and steps is its own business: reported, not a violation
                v.cov.setdefault("model_drift_not_owned", {})
                v.cov["model_drift_not_owned"][x] = v.cov["model_drift_not_owned"].get(x, 0) + 1
    if recs:
        v.sample({"direction": "code->spec", "tree": recs[0]["tree"], "real_program": recs[0]["prog"]})
    v.cov["exhaustive"] = True
    v.cov["rule"] = ("all well-formed syntax trees with <= 3 operator nodes over {sub, lt, neg, chooses/if_true_then_else} and leaves "
                     "{F1, F2, K} (+ sequence-field leaves at depth 1), and <= %d nodes over {sub, lshift, lt, eq, and}; random trees of "
                     "<= 7 nodes over the full tables; non-trivial = program of >= 4 instructions; distinct trees." % (2 if quick else 3))
    v.assumptions = ["values are terms of the free algebra for the structural half; concrete half uses operand samples " + repr(SAMPLES)]
    return v.finish()
