"""C17 - Auto/AutoLength fields always read and serialize consistently (DESIGN.md 5.17).
MC_Auto.tla: the descriptor's enabled flag, hidden field and tracked field under every history of New (with/without
the keyword) / SetTracked / SetDescribed / DelDescribed / Unpack / Pack, for AutoLength of a byte string, AutoLength
of a repeated field and Auto(fn); TLC checks Inv_C17_Read against the ghost 'value assigned since the last
delete/construction/parse', Inv_C17_Pack and Prop_C17_PackKeepsRead exhaustively up to the history bound.  Every
maximal history is executed on real packets under generic and generated code, comparing after EVERY operation the
attribute read, the hidden slot, the tracked value, pack()'s result and hasattr(p, '__dict__').  Longer random
histories are recorded and validated by TLC (Trace_Auto)."""
import json
import multiprocessing
import os
import random
import tempfile

from lib import common
from lib.tlcrun import run_tlc
from bind import replay_packet as rp

NOMV = {"kind": "none"}
GEN_SHARED = {"share_opts": True, "vectorize": True}      # the classes of a module written with ONE options dictionary object
NODESC = {"kind": "none"}


def u1(name, desc=NODESC):
    return {"k": "Int", "name": name, "n": 1, "signed": False, "endian": "default", "dflt": 0, "mv": NOMV, "desc": desc}


DECLS = {
    "len": {"C0": {"opts": {"endian": "none", "align": 0, "sbl": -1}, "fields": [
        u1("dsc", {"kind": "autolen", "of": "trk"}), {"k": "Data", "name": "trk", "size": {"m": "field", "f": "dsc"}, "dflt": [], "mv": NOMV}]}},
    "rep": {"C0": {"opts": {"endian": "none", "align": 0, "sbl": -1}, "fields": [
        u1("dsc", {"kind": "autolen", "of": "trk"}),
        {"k": "Rep", "name": "trk", "elem": u1("e"), "count": {"m": "field", "f": "dsc"}, "until": {"m": "none"}, "when": {"m": "none"},
         "aligned": 0, "dflt": [], "mv": NOMV}]}},
    "auto": {"C0": {"opts": {"endian": "none", "align": 0, "sbl": -1}, "fields": [
        u1("dsc", {"kind": "auto", "e": {"e": "bin", "op": "add", "l": {"e": "un", "op": "len", "a": {"e": "f", "n": "trk"}}, "r": {"e": "c", "v": 1}}}),
        {"k": "Data", "name": "trk", "size": {"m": "marker", "b": [0], "incl": False, "consume": True}, "dflt": [], "mv": NOMV}]}},
}


def embedded(decl):
    """the same fields reaching the class through Ref(Sub, embed=True): C0 = [emb = Ref(C1, embed=True)] + fields of C1"""
    fs = decl["C0"]["fields"]
    return {"C1": {"opts": decl["C0"]["opts"], "fields": fs},
            "C0": {"opts": decl["C0"]["opts"],
                   "fields": [{"k": "Emb", "name": "emb", "cls": "C1", "over": [], "n": len(fs), "mv": NOMV}] + fs}}


def two(decl):
    """the same fields behind a SECOND described field (x = Int(1).describe(Auto(lambda pkt: 7)), always serialised as 07):
    every descriptor of a class has its hooks run, not only one of them"""
    extra = u1("x", {"kind": "auto", "e": {"e": "c", "v": 7}})
    return {"C0": {"opts": decl["C0"]["opts"], "fields": [extra] + decl["C0"]["fields"]}}


def nested(decl):
    """the class one level down, behind Ref(C1(dsc=9)): the prototype was BUILT with the described keyword; packets parsed
    through the reference are ordinary parsed packets all the same (nothing was assigned to them)"""
    return {"C1": decl["C0"],
            "C0": {"opts": decl["C0"]["opts"],
                   "fields": [{"k": "Ref", "name": "s", "cls": "C1", "over": [{"n": "dsc", "v": {"t": "int", "i": 9}}], "mv": NOMV}]}}


def withlen(decl):
    """the same class with a user's __len__ (the number of tracked bytes / elements): an instance whose tracked field is empty
    is FALSY, like an empty container - it is still an instance"""
    return {"C0": dict(decl["C0"], methods=["def __len__(self):", "    return len(self.trk or b'')"])}


def twins(decl):
    """TWO references to the class in one outer packet; the harness does everything to both nested packets alike, so they are
    distinct objects that always compare equal: each is serialised as what ITS attribute reads"""
    return {"C1": decl["C0"],
            "C0": {"opts": decl["C0"]["opts"],
                   "fields": [{"k": "Ref", "name": "s", "cls": "C1", "over": [{"n": "dsc", "v": {"t": "int", "i": 9}}], "mv": NOMV},
                              {"k": "Ref", "name": "u", "cls": "C1", "over": [{"n": "dsc", "v": {"t": "int", "i": 9}}], "mv": NOMV}]}}


def tval(kind, t):
    if list(t) == [-1]:
        return None           # the specification's BAD: a value the descriptor's function cannot work on
    return list(t) if kind == "rep" else bytes(t)


def tabs(kind, v):
    return list(v) if v is not None else [-1]


def read_attr(p):
    try:
        return p.dsc
    except Exception:
        return -2             # reading raises (the specification's -2)


class Live:
    def __init__(self, cls, kind, lead=False, outer=None, twin=False):
        self.cls, self.kind, self.lead = cls, kind, lead        # lead: the class starts with the extra described field x
        self.outer = outer          # the packet under test is the field `s` of an instance of this class
        self.p = cls()
        self.o = outer(s=self.p) if outer else None
        self.twin = twin

    def do(self, op, arg):
        if not self.twin:
            return self.do1(op, arg)
        return self.do2(op, arg)

    def do2(self, op, arg):
        """two nested packets of one outer packet, treated alike"""
        from bisturi.packet import PacketError
        ok, out = True, []
        if not hasattr(self, "q"):
            self.q = self.cls()
            self.o = self.outer(s=self.p, u=self.q)
        if op == "new":
            self.p = self.cls() if arg[0] == -1 else self.cls(dsc=arg[0])
            self.q = self.cls() if arg[0] == -1 else self.cls(dsc=arg[0])
            self.o = self.outer(s=self.p, u=self.q)
        elif op == "set_tracked":
            self.p.trk = tval(self.kind, arg)
            self.q.trk = tval(self.kind, arg)
        elif op == "set_described":
            self.p.dsc = arg[0]
            self.q.dsc = arg[0]
        elif op == "del_described":
            del self.p.dsc
            del self.q.dsc
        elif op == "unpack":
            try:
                self.o = self.outer.unpack(bytes(arg) + bytes(arg))
                self.p, self.q = self.o.s, self.o.u
            except PacketError:
                ok = False
        elif op == "pack":
            try:
                both = list(self.o.pack())
                half = len(both) // 2
                out = both[:half]
                if both[half:] != out:
                    out = ["the second of two equal nested packets was serialised as %r, the first as %r" % (both[half:], out)]
            except PacketError:
                ok = False
        r2 = read_attr(self.q)
        r1 = read_attr(self.p)
        return {"op": op, "arg": list(arg), "ok": ok, "out": out, "hasdict": hasattr(self.p, "__dict__") or hasattr(self.q, "__dict__"),
                "obs": {"read": r1 if r1 == r2 else ["the two nested packets read differently", r1, r2],
                        "hidden": getattr(self.q, "_described_dsc", None), "tracked": tabs(self.kind, self.q.trk)}}

    def do1(self, op, arg):
        from bisturi.packet import PacketError
        ok, out = True, []
        if op == "new":
            self.p = self.cls() if arg[0] == -1 else self.cls(dsc=arg[0])
            if self.outer:
                self.o = self.outer(s=self.p)
        elif op == "set_tracked":
            self.p.trk = tval(self.kind, arg)
        elif op == "set_described":
            self.p.dsc = arg[0]
        elif op == "del_described":
            del self.p.dsc
        elif op == "unpack":
            try:
                if self.outer:
                    self.o = self.outer.unpack(bytes(arg))
                    self.p = self.o.s
                else:
                    self.p = self.cls.unpack(bytes([9] if self.lead else []) + bytes(arg))      # (x parses as 9, reads as 7)
            except PacketError:
                ok = False
        elif op == "pack":
            try:
                out = list((self.o if self.outer else self.p).pack())
                if self.lead:
                    out = out[1:] if out[:1] == [7] else ["x was serialised as %r, it reads as 7" % (out[:1],)] + out
            except PacketError:
                ok = False
        return {"op": op, "arg": list(arg), "ok": ok, "out": out, "hasdict": hasattr(self.p, "__dict__"),
                "obs": {"read": read_attr(self.p), "hidden": getattr(self.p, "_described_dsc", None), "tracked": tabs(self.kind, self.p.trk)}}


_W = {}


def _winit():
    common.bind_repo()
    from bind import declgen
    _W["sc"] = declgen.Scratch()
    import atexit
    atexit.register(_W["sc"].close)


def _wrun(chunk):
    bad = []
    n = 0
    for c in chunk:
        for gen, emb in ((rp.GEN_OFF, False), (None, False), (rp.GEN_OFF, True), (None, True), (rp.GEN_OFF, "two"), (None, "two"),
                         (rp.GEN_OFF, "nested"), (None, "nested"), (GEN_SHARED, "nested"), (GEN_SHARED, True),
                         (rp.GEN_OFF, "withlen"), (None, "withlen"), (rp.GEN_OFF, "twins"), (None, "twins")):
            decl = DECLS[c["kind"]]
            if emb == "nested":
                mod = _W["sc"].load(nested(decl), gen)
                live = Live(mod.C1, c["kind"], outer=mod.C0)
            elif emb == "twins":
                mod = _W["sc"].load(twins(decl), gen)
                live = Live(mod.C1, c["kind"], outer=mod.C0, twin=True)
            else:
                cls = _W["sc"].load(two(decl) if emb == "two" else withlen(decl) if emb == "withlen" else embedded(decl) if emb else decl, gen).C0
                live = Live(cls, c["kind"], lead=(emb == "two"))
            n += 1
            for i, e in enumerate(c["hist"]):
                try:
                    o = live.do(e["op"], e["arg"])
                except Exception as ex:
                    bad.append({"clause": "C17_Outcome", "detail": "operation %d (%s) raised %s: %s" % (i, e["op"], type(ex).__name__, str(ex)[:150]),
                                "kind": c["kind"], "gen": gen, "embedded": emb, "hist": [[x["op"], x["arg"]] for x in c["hist"][:i + 1]]})
                    break
                diffs = []
                if o["ok"] != e["ok"]:
                    diffs.append("C17_Outcome")
                if o["obs"]["read"] != e["obs"]["read"]:
                    diffs.append("C17_Read")
                if o["obs"]["tracked"] != e["obs"]["tracked"]:
                    diffs.append("C17_Tracked")
                if e["op"] in ("pack", "set_described", "unpack") and e["ok"] and o["obs"]["hidden"] != e["obs"]["hidden"]:
                    diffs.append("C17_Hidden")
                if e["op"] == "pack" and e["ok"] and o["ok"] and o["out"] != e["out"]:
                    diffs.append("C17_PackBytes")
                if o["hasdict"]:
                    diffs.append("C17_NoDict")
                if diffs:
                    bad.append({"clause": diffs[0], "detail": "after operation %d (%s %r): code %r / %r, specification %r / %r" % (
                        i, e["op"], e["arg"], o["obs"], o["out"], e["obs"], e["out"]),
                        "kind": c["kind"], "gen": gen, "embedded": emb, "hist": [[x["op"], x["arg"]] for x in c["hist"][:i + 1]]})
                    break
    return n, bad


def overlap_part(v, cases, quick):
    """Two threads, each serialising ITS OWN packet of one class, overlapping INSIDE the descriptor's function (the function is
    wrapped so that a thread parks when it enters it; `order` releases the threads one entry at a time): each pack() must still
    give what the specification gives for that packet alone (the histories [set_tracked t, pack] of MC_Auto)."""
    import itertools
    import threading
    from bind import declgen
    expected = {}
    for c in cases:
        h = c["hist"]
        if c["kind"] == "auto" and len(h) >= 2 and h[0]["op"] == "set_tracked" and h[1]["op"] == "pack" and h[1]["ok"]:
            expected[tuple(h[0]["arg"])] = h[1]["out"]
    tvals = [t for t in ((65,), (65, 66), ()) if t in expected]
    if len(tvals) < 2:
        raise common.MachineryFailure("MC_Auto emitted no [set_tracked, pack] histories to take the expected bytes from")
    n = 0
    with declgen.Scratch() as sc:
        for gi, gen in enumerate((rp.GEN_OFF, None)):
            cls = sc.load(DECLS["auto"], gen, nonce=("overlap", gi)).C0
            desc = cls.__dict__.get("dsc")
            if desc is None or not callable(getattr(desc, "func", None)):
                v.cov["overlap_not_observable"] = True      # the descriptor keeps its function elsewhere: nothing to park in
                return
            orig = desc.func
            for order in itertools.product((0, 1), repeat=3 if quick else 5):
                gates = [threading.Semaphore(0), threading.Semaphore(0)]
                arrived = [threading.Semaphore(0), threading.Semaphore(0)]
                done = [False, False]
                results = [None, None]
                tl = threading.local()

                def fn(instance, orig=orig):
                    i = getattr(tl, "idx", None)
                    if i is not None:
                        arrived[i].release()
                        gates[i].acquire()
                    return orig(instance)
                pkts = [cls(), cls()]
                pkts[0].trk, pkts[1].trk = bytes(tvals[0]), bytes(tvals[1])

                def body(i):
                    tl.idx = i
                    arrived[i].release()
                    gates[i].acquire()
                    try:
                        results[i] = ("ok", list(pkts[i].pack()))
                    except Exception as ex:
                        results[i] = ("error", type(ex).__name__)
                    done[i] = True
                    arrived[i].release()
                desc.func = fn
                try:
                    ths = [threading.Thread(target=body, args=(i,)) for i in (0, 1)]
                    for t in ths:
                        t.start()
                    for i in (0, 1):
                        arrived[i].acquire()

                    def step(i):
                        if not done[i]:
                            gates[i].release()
                            arrived[i].acquire()
                    for i in order:
                        step(i)
                    while not done[0]:
                        step(0)
                    while not done[1]:
                        step(1)
                    for t in ths:
                        t.join()
                finally:
                    desc.func = orig
                n += 1
                v.count_case(("overlap", gi, order), nontrivial=True)
                for i in (0, 1):
                    exp = ("ok", expected[tvals[i]])
                    if results[i] != exp:
                        v.violation("C17_PackBytes", "two threads serialising their own packets, overlapping inside the descriptor's function "
                                    "(schedule %r): thread %d got %r, the specification gives %r for that packet" % (order, i, results[i], exp),
                                    {"gen": gen, "order": order})
                        return
    v.cov["overlapping_packs_executed"] = n
    v.cov["traces_validated_against_impl"] += n


def run(tier, seed):
    v = common.Verdict("C17", tier, seed)
    common.bind_repo()
    quick = tier == "quick"
    depth = 6 if quick else 7
    cfg = ("SPECIFICATION Spec\nCONSTANTS MaxOps = %d KeepHist = %s\nINVARIANT Inv_C17_Read\nINVARIANT Inv_C17_Pack\n"
           "PROPERTY Prop_C17_PackKeepsRead\n%s")
    res = run_tlc("MC_Auto", cfg_text=cfg % (depth, "FALSE", ""), workers=8)
    if res.violation:
        raise common.MachineryFailure("MC_Auto violates %s" % res.violation["name"])
    v.add_tlc(res, "MC_Auto all histories of <= %d operations (merged states)" % depth)
    hd = 3 if quick else 4
    res2 = run_tlc("MC_Auto", cfg_text=cfg % (hd, "TRUE", "INVARIANT Emit\n"), workers=8, timeout=3000)
    if res2.violation:
        raise common.MachineryFailure("MC_Auto (history) violates %s" % res2.violation["name"])
    v.add_tlc(res2, "MC_Auto with history: every maximal history of %d operations emitted" % hd)
    cases = res2.emits
    for c in cases:
        v.count_case(json.dumps([c["kind"], [[e["op"], e["arg"]] for e in c["hist"]]]), nontrivial=True)
    for c in cases[:: max(1, len(cases) // 3)][:3]:
        v.sample({"direction": "spec->code", "class": c["kind"], "history": [[e["op"], e["arg"], e["obs"]["read"]] for e in c["hist"]]})
    chunks = [cases[i:i + 300] for i in range(0, len(cases), 300)]
    ctx = multiprocessing.get_context("fork")
    n = 0
    bad = []
    with ctx.Pool(14, initializer=_winit) as pool:
        for k, out in pool.imap_unordered(_wrun, chunks):
            n += k
            bad.extend(out)
    v.cov["traces_validated_against_impl"] += n
    for b in bad[:50]:
        v.violation(b["clause"], b["detail"], b)
    overlap_part(v, cases, quick)
    # code -> spec: longer random histories
    rnd = random.Random(seed)
    from bind import declgen
    recs = []
    with declgen.Scratch() as sc:
        for _ in range(300 if quick else 3000):
            kind = rnd.choice(["len", "rep", "auto"])
            gen = rnd.choice([rp.GEN_OFF, None])
            live = Live(sc.load(DECLS[kind], gen).C0, kind)
            ops = []
            for _ in range(rnd.randint(6, 16)):
                op = rnd.choice(["new", "set_tracked", "set_tracked", "set_described", "del_described", "unpack", "pack", "pack"])
                if op == "new":
                    arg = [rnd.choice([-1, -1, 0, 3, 255, 256, 1000])]
                elif op == "set_tracked":
                    arg = [rnd.choice([1, 65, 66, 200]) for _ in range(rnd.randint(0, 5))] if rnd.random() < 0.85 else [-1]
                elif op == "set_described":
                    arg = [rnd.choice([0, 1, 2, 5, 255, 256, 70000])]
                elif op == "unpack":
                    k = rnd.randint(0, 4)
                    body = [rnd.choice([1, 65, 66]) for _ in range(k)]
                    arg = ([rnd.choice([k, k, k + 1, 0, k + 1 if kind == "auto" else k])] + body + ([0] if kind == "auto" else [])) if rnd.random() < 0.9 else []
                else:
                    arg = []
                try:
                    ops.append(live.do(op, arg))
                except Exception as ex:
                    ops.append({"op": op, "arg": arg, "ok": False, "out": [], "hasdict": False,
                                "obs": {"read": -999, "hidden": -999, "tracked": []}, "raised": type(ex).__name__})
                    break
            for o in ops:
                if o["obs"]["hidden"] is None:
                    o["obs"]["hidden"] = -998
            recs.append({"kind": kind, "ops": ops, "gen": gen})
    d = tempfile.mkdtemp(prefix="c17_")
    path = os.path.join(d, "t.json")
    with open(path, "w") as fh:
        json.dump([{"kind": r["kind"], "ops": r["ops"]} for r in recs], fh)
    try:
        tres = run_tlc("Trace_Auto", workers=4, env={"TRACE_FILE": path})
    finally:
        os.remove(path)
        os.rmdir(d)
    v.add_tlc(tres, "Trace_Auto on %d recorded histories of 6..16 operations" % len(recs), exhaustive=False)
    for i, r in enumerate(recs):
        names = tres.res.get(i + 1)
        if names is None:
            raise common.MachineryFailure("Trace_Auto gave no verdict for record %d" % i)
        v.cov["traces_validated_against_impl"] += 1
        v.count_case(json.dumps([r["kind"], [[o["op"], o["arg"]] for o in r["ops"]]]), nontrivial=True)
        if names:
            v.violation(names[0], "recorded history rejected by the specification: %s" % names, r)
    v.sample({"direction": "code->spec", "class": recs[0]["kind"], "history": [[o["op"], o["arg"], o["obs"]["read"]] for o in recs[0]["ops"]]})
    v.cov["exhaustive"] = True
    v.cov["rule"] = ("TLC: all histories of <= %d operations over 3 classes (merged states); every maximal history of %d operations executed "
                     "on real packets x generic/generated code with the full projected state compared after each operation; random "
                     "histories of 6..16 operations validated by TLC. All cases non-trivial; distinct histories hashed." % (depth, hd))
    v.assumptions = ["tracked values from {'', 'A', 'AB'}, described values {0,1,7,300} in the exhaustive part"]
    return v.finish()
