"""C05 - integer fields encode and decode exact two's-complement values (DESIGN.md 5.5).
IntCodec.tla is the codec on base-256 digit sequences (no 32-bit limit); MC_IntCodec checks the codec laws with
TLC and emits every (configuration, pattern): widths 1,2 exhaustively (all 65,536 patterns, both signs, both byte
orders), widths 3,4,5,8,9,16 lane-exhaustively, the five endianness spellings x class default on a boundary set.
Every case is executed on the real Int field reached in five ways (direct, first of a vectorised pair, element of
a repeated field, optional, selected at run time by a Ref) under generic and generated code: decode, encode back,
reject max+1 / min-1 / non-integers.  Random widths/patterns/values are recorded and checked by TLC."""
import json
import multiprocessing
import os
import random
import tempfile
from concurrent.futures import ThreadPoolExecutor

from lib import common
from lib.tlcrun import run_tlc
from bind import replay_packet as rp

REACH = ["direct", "pair", "mid", "rep", "opt", "refsel"]
NOMV = {"kind": "none"}
NODESC = {"kind": "none"}


def intf(name, cfg):
    return {"k": "Int", "name": name, "n": cfg["n"], "signed": cfg["signed"], "endian": cfg["endian"], "dflt": 0,
            "mv": NOMV, "desc": NODESC}


def u1(name):
    return {"k": "Int", "name": name, "n": 1, "signed": False, "endian": "default", "dflt": 0, "mv": NOMV, "desc": NODESC}


def decl_for(cfg, reach):
    opts = {"endian": cfg["cls"], "align": 0, "sbl": -1}
    f = intf("f", cfg)
    if reach == "direct":
        fields = [f]
    elif reach == "pair":
        fields = [f, u1("g")]
    elif reach == "mid":      # strictly inside a run of struct-coded fields whose ends share a byte order
        big2 = {"k": "Int", "name": "a", "n": 2, "signed": False, "endian": "big", "dflt": 0, "mv": NOMV, "desc": NODESC}
        fields = [big2, f, dict(big2, name="b")]
    elif reach == "rep":
        fields = [{"k": "Rep", "name": "f", "elem": intf("e", cfg), "count": {"m": "const", "v": 1}, "until": {"m": "none"},
                   "when": {"m": "none"}, "aligned": 0, "dflt": [], "mv": NOMV}]
    elif reach == "opt":
        fields = [u1("t"), {"k": "Opt", "name": "f", "elem": intf("e", cfg), "when": {"m": "field", "f": "t"},
                            "dflt": {"t": "none"}, "mv": NOMV}]
    else:
        fields = [u1("t"), {"k": "RefSel", "name": "f", "key": {"e": "f", "n": "t"}, "alts": [{"key": 1, "alt": intf("", cfg)}],
                            "form": "chooses", "dflt": {"t": "int", "i": 0}, "mv": NOMV}]
    return {"C0": {"opts": opts, "fields": fields}}


def to_int(v):
    m = 0
    for d in v["mag"]:
        m = m * 256 + d
    return -m if v["neg"] else m


def from_int(x):
    neg = x < 0
    x = abs(x)
    mag = []
    while x:
        mag.insert(0, x & 255)
        x >>= 8
    return {"neg": neg and bool(mag), "mag": mag}


def wrap(reach, bs):
    return {"direct": bs, "pair": bs + b"\x5a", "mid": b"\x01\x02" + bs + b"\x03\x04", "rep": bs, "opt": b"\x01" + bs, "refsel": b"\x01" + bs}[reach]


def get_value(reach, pkt):
    v = pkt.f
    return v[0] if reach == "rep" else v


def make(cls, reach, x):
    if reach == "rep":
        return cls(f=[x])
    if reach in ("opt", "refsel"):
        return cls(t=1, f=x)
    if reach == "pair":
        return cls(f=x, g=0x5a)
    if reach == "mid":
        return cls(a=0x0102, f=x, b=0x0304)
    return cls(f=x)


_W = {}


def _winit():
    common.bind_repo()
    from bind import declgen
    _W["sc"] = declgen.Scratch()
    import atexit
    atexit.register(_W["sc"].close)


def run_case(cls, reach, cfg, bs, val_int, over, under):
    """-> list of (clause, detail)"""
    from bisturi.packet import PacketError
    out = []
    raw = wrap(reach, bytes(bs))
    try:
        p = cls.unpack(raw)
        got = get_value(reach, p)
        if got != val_int:
            out.append(("C05_Decode", "decoded %r, specification %r" % (got, val_int)))
    except Exception as e:
        out.append(("C05_Decode", "decode raised %s" % type(e).__name__))
    try:
        # the same bytes read through the documented file adapter (a bytes subclass that serves data by slicing only)
        import io
        from bisturi.util import SeekableFile
        got = get_value(reach, cls.unpack(SeekableFile(io.BytesIO(raw))))
        if got != val_int or type(got) is not int:
            out.append(("C05_Decode", "decoded %r from a file, specification %r" % (got, val_int)))
    except Exception as e:
        out.append(("C05_Decode", "decode from a file raised %s" % type(e).__name__))
    try:
        b = make(cls, reach, val_int).pack()
        if b != raw:
            out.append(("C05_EncodeBytes", "encoded %r, specification %r" % (b, raw)))
    except Exception as e:
        out.append(("C05_EncodeOutcome", "encode of a representable value raised %s" % type(e).__name__))
    if getattr(cls, "_verif_bad_probed", False):
        return out
    cls._verif_bad_probed = True      # the rejected values depend on the configuration only: once per class
    # ... and non-integers that compare EQUAL to the value this very field has just encoded (a float from a true division,
    # a Fraction): equal to an integer is not an integer
    import fractions
    same = [fractions.Fraction(val_int)] + ([float(val_int)] if abs(val_int) < 2 ** 53 else [])
    for bad in (over, under, 1.5, None, "1", b"\x01") + tuple(same):
        if bad is None and reach == "opt":
            continue                  # None is the legitimate "absent" value of an optional field
        try:
            b = make(cls, reach, bad).pack()
            out.append(("C05_EncodeOutcome", "value %r was encoded as %r instead of raising PacketError" % (bad, b)))
        except PacketError:
            pass
        except Exception as e:
            out.append(("C05_EncodeOutcome", "value %r raised %s instead of PacketError" % (bad, type(e).__name__)))
    return out


def _wrun(chunk):
    res = []
    n = 0
    for c in chunk:
        cfg = c["cfg"]
        val = to_int(c["v"])
        over, under = to_int(c["over"]), to_int(c["under"])
        reaches = REACH if (c.get("all_reach") or cfg["n"] > 2) else ["direct", "pair", "mid"]
        for reach in reaches:
            for gen in (rp.GEN_OFF, None):
                mod = _W["sc"].load(decl_for(cfg, reach), gen)
                n += 1
                for clause, detail in run_case(mod.C0, reach, cfg, c["bs"], val, over, under):
                    res.append({"clause": clause, "detail": detail, "cfg": cfg, "reach": reach, "gen": gen, "bs": c["bs"]})
    return n, res


def mc(mode, nparts=1):
    def cfgtext(k):
        return ("SPECIFICATION Spec\nCONSTANTS Part = %d NParts = %d Mode = \"%s\"\nINVARIANT Inv_C05_DecEnc\nINVARIANT Inv_C05_Range\n"
                "INVARIANT Inv_C05_OutOfRange\nINVARIANT Inv_C05_Endian\nINVARIANT Inv_C05_Sign\nINVARIANT Emit\n" % (k, nparts, mode))
    with ThreadPoolExecutor(nparts) as ex:
        parts = list(ex.map(lambda k: run_tlc("MC_IntCodec", cfg_text=cfgtext(k), workers=2, heap="3g", timeout=3000), range(nparts)))
    res = parts[0]
    for r in parts[1:]:
        res.violation = res.violation or r.violation
        res.generated += r.generated
        res.distinct += r.distinct
        res.emits.extend(r.emits)
    if res.violation:
        raise common.MachineryFailure("MC_IntCodec violates %s: %s" % (res.violation["name"], res.violation["trace_text"][:1500]))
    return res


def run(tier, seed):
    v = common.Verdict("C05", tier, seed)
    common.bind_repo()
    import sys
    if sys.byteorder != "little":
        raise common.MachineryFailure("the specification's HostBig constant assumes a little-endian host")
    quick = tier == "quick"
    cases = []
    for mode, nparts in (("full12", 8), ("lanes", 1), ("spellings", 1)):
        res = mc(mode, nparts)
        v.add_tlc(res, "MC_IntCodec Mode=%s" % mode)
        for c in res.emits:
            c["all_reach"] = mode == "spellings"
            if mode == "full12" and quick and c["cfg"]["n"] == 2 and (c["bs"][0] * 256 + c["bs"][1] + seed) % 4:
                continue     # quick: a seeded quarter of the 2-byte table on the code side (TLC still checks all of it)
            cases.append(c)
    for c in cases:
        v.count_case((json.dumps(c["cfg"], sort_keys=True), tuple(c["bs"])), nontrivial=c["cfg"]["n"] >= 2)
    for c in cases[:: max(1, len(cases) // 3)][:3]:
        v.sample({"direction": "spec->code", "cfg": c["cfg"], "bytes": c["bs"], "spec_value": to_int(c["v"]),
                  "rejected": [to_int(c["over"]), to_int(c["under"])]})
    cases.sort(key=lambda c: json.dumps(c["cfg"], sort_keys=True))
    chunks = [cases[i:i + 400] for i in range(0, len(cases), 400)]
    ctx = multiprocessing.get_context("fork")
    n = 0
    bad = []
    with ctx.Pool(14, initializer=_winit) as pool:
        for k, out in pool.imap_unordered(_wrun, chunks):
            n += k
            bad.extend(out)
    v.cov["traces_validated_against_impl"] += n
    for b in bad[:50]:
        v.violation(b["clause"], "%s (width %d signed=%s endianness=%s class=%s reached as %s)" % (
            b["detail"], b["cfg"]["n"], b["cfg"]["signed"], b["cfg"]["endian"], b["cfg"]["cls"], b["reach"]), b)
    # code -> spec: random widths / patterns / values, judged by TLC
    rnd = random.Random(seed)
    recs = []
    from bind import declgen
    with declgen.Scratch() as sc:
        for _ in range(400 if quick else 4000):
            cfg = {"n": rnd.choice([1, 2, 3, 4, 5, 6, 7, 8, 9, 10, 12, 16, 24, 32]), "signed": rnd.random() < 0.5,
                   "endian": rnd.choice(["default", "big", "little", "network", "local"]), "cls": rnd.choice(["none", "big", "little"])}
            reach = rnd.choice(REACH)
            gen = rnd.choice([rp.GEN_OFF, None])
            cls = sc.load(decl_for(cfg, reach), gen).C0
            bs = bytes(rnd.choice([0, 255, 128, 127, rnd.randrange(256)]) for _ in range(cfg["n"]))
            try:
                dec = from_int(get_value(reach, cls.unpack(wrap(reach, bs))))
            except Exception:
                dec = {"neg": True, "mag": [255] * 40}     # marks a failed decode: never equal to a specification value
            bits = 8 * cfg["n"]
            x = rnd.choice([0, 1, -1, 2 ** (bits - 1), 2 ** (bits - 1) - 1, -2 ** (bits - 1), -2 ** (bits - 1) - 1, 2 ** bits - 1, 2 ** bits,
                            rnd.randrange(-2 ** bits, 2 ** bits)])
            try:
                eb = make(cls, reach, x).pack()
                pre = 1 if reach in ("opt", "refsel") else 2 if reach == "mid" else 0
                eb = eb[pre:pre + cfg["n"]]
                ok = True
            except Exception:
                ok, eb = False, b""
            recs.append({"cfg": cfg, "bs": list(bs), "dec": dec, "val": from_int(x), "enc_ok": ok, "enc_bs": list(eb),
                         "reach": reach, "gen": gen})
    d = tempfile.mkdtemp(prefix="c05_")
    path = os.path.join(d, "t.json")
    with open(path, "w") as fh:
        json.dump([{k: r[k] for k in ("cfg", "bs", "dec", "val", "enc_ok", "enc_bs")} for r in recs], fh)
    try:
        tres = run_tlc("Trace_IntCodec", workers=4, env={"TRACE_FILE": path})
    finally:
        os.remove(path)
        os.rmdir(d)
    v.add_tlc(tres, "Trace_IntCodec on %d recorded decodes/encodes (random widths up to 32 bytes)" % len(recs), exhaustive=False)
    for i, r in enumerate(recs):
        names = tres.res.get(i + 1)
        if names is None:
            raise common.MachineryFailure("Trace_IntCodec gave no verdict for record %d" % i)
        v.cov["traces_validated_against_impl"] += 1
        v.count_case(("rand", json.dumps(r["cfg"], sort_keys=True), tuple(r["bs"]), json.dumps(r["val"])), nontrivial=True)
        if names:
            v.violation(names[0], "recorded execution rejected by the specification: %s" % names, r)
    v.sample({"direction": "code->spec", "record": recs[0]})
    v.cov["exhaustive"] = True
    v.cov["rule"] = ("widths 1,2: all byte patterns x signed x {big,little} (TLC: all; code: all in thorough, a seeded quarter of the "
                     "2-byte table in quick); widths 3,4,5,8,9,16: <=3 non-fill lanes from {00,01,7f,80,fe,ff} over fill {00,ff}; "
                     "5 spellings x 3 class defaults x 6 widths on boundary patterns, each reached 5 ways x generic/generated; "
                     "non-trivial = width >= 2; distinct by (configuration, pattern).")
    v.assumptions = ["little-endian host for the 'local' spelling (asserted)"]
    return v.finish()
