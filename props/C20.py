"""C20 - packet equality is structural and total (DESIGN.md 5.20).
MC_Values over U_C20 (declarations with at/shift/aligned, the class-wide align option, Em, a described field, nested
packets, lists, optionals, run-time selected references): p is built from K, q is built like p and then exactly one
field (every field, every domain value, at any depth) is re-assigned - or none.  The model's answer is V = V2.
On real objects: ==, !=, comparison with itself / None / a packet of another class, repr of both; two packets parsed
from the same bytes; a parsed packet against the constructed one.  TLC (Trace_Values) evaluates C20_Total,
C20_Structural and C20_ParsedEqual on the recorded visible values and results."""
from lib import common, valuesprofile as vp
from bind import replay_packet as rp

OWNED = {"C20_Total", "C20_Structural", "C20_ParsedEqual", "C20_ChangeMakesUnequal", "C20_Pattern"}
# classes of one module written with ONE shared options dictionary object (__bisturi__ = WIRE in each of them)
GEN_SHARED = {"share_opts": True, "vectorize": True}
# the classes are defined inside a function (their instances cannot be pickled: prototypes are cloned another way)
GEN_LOCAL = {"local_classes": True, "vectorize": True}


def run(tier, seed):
    v = common.Verdict("C20", tier, seed)
    common.bind_repo()
    gens = [rp.GEN_OFF, None, GEN_SHARED, GEN_LOCAL]
    vp.exhaustive_part(v, "U_C20", [], gens, OWNED, always_judge=200 if tier == "quick" else 2000)
    v.cov["exhaustive"] = True
    v.cov["rule"] = ("TLC enumerates U_C20 x every value assignment from the two-element domains x (no change | every field re-assigned to "
                     "every other domain value); each pair is built on real classes (constructor and attribute assignment, generic and "
                     "generated code) and compared; non-trivial = at least two value-bearing fields; distinct by (declaration, K, change).")
    v.assumptions = ["values from the small domains of Values.tla"]
    return v.finish()
