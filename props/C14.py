"""C14 - parsing depends only on the bytes it consumes.

MC_Context.tla runs two unpack machines in lockstep, on (raw, 0) and on (pre + raw + post, len(pre)),
for every declaration without absolute positioning / raw-inspecting callables, every input and every
pre/post over the declaration's alphabet; TLC checks Inv_C14_*.  Every terminal pair is replayed on the
real classes; pairs where the code differs from the specification are recorded and TLC (Trace_Packet)
evaluates C14_Lockstep on the recorded pair.  Plus random declarations/contexts, judged the same way.
"""
import json
import random
from concurrent.futures import ThreadPoolExecutor

from lib import common, packetprofile as pp
from lib.tlcrun import run_tlc
from bind import replay_packet as rp

OWNED = {"C14_Lockstep"}


def cfg(universe, part, nparts, maxctx, full, lenbonus):
    s = "SPECIFICATION Spec\nCONSTANT UName = \"%s\"\nCONSTANTS Part = %d NParts = %d MaxCtx = %d FullCross = %s\n" % (
        universe, part, nparts, maxctx, "TRUE" if full else "FALSE")
    if lenbonus:
        s += "CONSTANT LenBonus <- LB%s\n" % ("m1" if lenbonus < 0 else str(lenbonus))
    s += "INVARIANT Inv_C14_Success\nINVARIANT Inv_C14_Failure\nINVARIANT Inv_C14_Cursor\nINVARIANT Emit\n"
    return s


_W = {}


def _winit(univ, gens):
    import sys, os
    common.bind_repo()
    from bind import declgen
    _W["sc"] = declgen.Scratch()
    _W["univ"] = univ
    _W["gens"] = gens
    import atexit
    atexit.register(_W["sc"].close)


def _obs_eq(ro, u, shift_reads=False):
    if ro["st"] != u["st"]:
        return False
    if u["st"] == "done":
        return ro["result"] == u["result"] and ro["endc"] == u["cur"]
    return True


def _wrun(chunk):
    from bind import trace_packet as tp
    out = []
    per_kind = {}
    for c in chunk:
        d = _W["univ"][c["d"] - 1]
        raw2 = c["pre"] + c["raw"] + c["post"]
        for gen in _W["gens"]:
            mod = _W["sc"].load(d["prog"], gen)
            r1 = rp.run_unpack(mod, d["root"], c["raw"], 0)
            r2 = rp.run_unpack(mod, d["root"], raw2, len(c["pre"]))
            ok = _obs_eq(r1, c["u1"]) and _obs_eq(r2, c["u2"])
            generic = not gen.get("generate_for_unpack", True) if gen else False
            if ok and generic:
                for r, u in ((r1, c["u1"]), (r2, c["u2"])):
                    if r["st"] == "fail" and r["err"]["stack"] != u["err"]:
                        ok = False
            if c.get("dev10b") and r2["st"] == "done":
                ok = False      # named deviation F10b exhibited: let TLC confirm it on the recording
            kind = "dev10b" if c.get("dev10b") else "diff"
            per_kind[kind] = per_kind.get(kind, 0) + (0 if ok else 1)
            if not ok and per_kind[kind] <= 40:
                rec, extra = tp.make_record(d, c["raw"], 0, gen, r1, None, False)
                rec["has2"] = True
                rec["shift"] = len(c["pre"])
                rec["nopost"] = len(c["post"]) == 0
                rec["cu2"] = tp.uobs(r2)
                out.append({"rec": rec, "d": c["d"], "gen": gen, "extra": extra, "pre": c["pre"], "post": c["post"]})
    return len(chunk), out


def long_prefix_part(v, univ, keep, gens, quick):
    """unpack(pre + raw + post, len(pre)) for prefixes that put every byte boundary of the parsed region on a multiple of 4096
    (where a buffered reader changes blocks), with the input given as bytes AND as the documented file adapter
    (bisturi.util.SeekableFile over the same bytes): same values, same end offset relative to the start."""
    import io
    from bind import declgen, observe
    from bisturi.util import SeekableFile
    n = 0
    with declgen.Scratch() as sc:
        for d_idx, cs in sorted(keep.items()):
            d = univ[d_idx - 1]
            if '"rest"' in json.dumps(d["prog"]) or '"EOS"' in json.dumps(d["prog"]) or '"dollar"' in json.dumps(d["prog"]):
                continue        # callables / delimiters that ask for len(raw): the file adapter has no length (documented adapter, not C14's subject)
            for gen in gens:
                cls = getattr(sc.load(d["prog"], gen), d["root"])
                for c in cs:
                    raw = bytes(c["raw"])
                    want = (c["u1"]["st"], c["u1"]["result"], c["u1"]["cur"])
                    for e in range(1, c["u1"]["cur"] + 1):
                        for blocks in ((1,) if quick else (1, 2)):
                            pre = 4096 * blocks - e
                            # what precedes the start offset: a filler byte, or the input's own first byte over and over (a prefix that
                            # ends in a piece of the input's delimiter)
                            for fill in sorted({238, raw[0] if raw else 238}):
                                data = bytes([fill]) * pre + raw + b"\xee\xee"
                                for kind in (("bytes", "file") if fill == 238 else ("bytes",)):
                                    src = data if kind == "bytes" else SeekableFile(io.BytesIO(data))
                                    endc = [None]
                                    base = cls.unpack_impl

                                    def impl(self, raw_, offset, _b=base, **k):
                                        r = _b(self, raw_, offset, **k)
                                        if k.get("root") is self:
                                            endc[0] = r
                                        return r
                                    cls.unpack_impl = impl
                                    try:
                                        try:
                                            p = cls.unpack(src, pre)
                                            got = ("done", observe.abs_packet(p), endc[0] - pre)
                                        except observe.PacketError as ex:
                                            got = ("fail", str(ex)[:120], None)
                                        except Exception as ex:
                                            got = ("escape", type(ex).__name__, None)
                                    finally:
                                        cls.unpack_impl = base
                                    n += 1
                                    if got != want and len(v.violations) < 50:
                                        v.violation("C14_LongPrefix" if kind == "bytes" else "C14_FileBacked",
                                                    "unpack(raw) gives %r; with %d bytes in front (%s input) it gives %r" % (want, pre, kind, got),
                                                    {"declaration": d["prog"], "raw": c["raw"], "prefix": pre, "input": kind, "gen": gen})
    v.cov["long_prefix_runs"] = n
    v.cov["traces_validated_against_impl"] += n


def run(tier, seed):
    import multiprocessing
    v = common.Verdict("C14", tier, seed)
    common.bind_repo()
    quick = tier == "quick"
    universe = "U_C14_Q" if quick else "U_C14"
    nparts = 8 if quick else 48
    gens = [rp.GEN_OFF, None]
    univ = None
    keep_cases = {}
    seen_ok = {}
    ctx = multiprocessing.get_context("fork")
    total = 0
    for w0 in range(0, nparts, 8):
        ks = list(range(w0, min(nparts, w0 + 8)))
        with ThreadPoolExecutor(len(ks)) as ex:
            futs = [ex.submit(run_tlc, "MC_Context", cfg_text=cfg(universe, k, nparts, 1, not quick, -1 if quick else 0),
                              timeout=6000, workers=2, heap="3g") for k in ks]
            parts = [f.result() for f in futs]
        res = parts[0]
        for r in parts[1:]:
            res.violation = res.violation or r.violation
            res.generated += r.generated
            res.distinct += r.distinct
            res.emits.extend(r.emits)
            res.wall_s = max(res.wall_s, r.wall_s)
            res.univ = res.univ or r.univ
        if res.violation:
            raise common.MachineryFailure("MC_Context violates %s on its own model:\n%s" % (
                res.violation["name"], res.violation["trace_text"][-2500:]))
        univ = univ or res.univ
        v.add_tlc(res, "MC_Context U=%s (processes Part=%d..%d of %d)" % (universe, ks[0], ks[-1], nparts))
        cases = sorted(res.emits, key=lambda c: c["d"])
        total += len(cases)
        # (a thin sample of the successful parses of every declaration is kept for the long-prefix / file-backed part)
        for c in cases:
            if c["u1"]["st"] == "done" and not c["u1"]["open"] and len(c["pre"]) == 0 and len(c["post"]) == 0:
                k = keep_cases.setdefault(c["d"], [])
                seen_ok[c["d"]] = seen_ok.get(c["d"], 0) + 1
                if len(k) < (3 if quick else 12) and seen_ok[c["d"]] % 4 == 1:       # (every 4th successful parse of the declaration)
                    k.append(c)
        chunks = [cases[i:i + 200] for i in range(0, len(cases), 200)]
        mism = []
        n = 0
        with ctx.Pool(14, initializer=_winit, initargs=(univ, gens)) as pool:
            for k, out in pool.imap_unordered(_wrun, chunks):
                n += k * len(gens)
                mism.extend(out)
        v.cov["traces_validated_against_impl"] += n
        for c in cases:
            v.count_case((c["d"], tuple(c["raw"]), tuple(c["pre"]), tuple(c["post"])),
                         nontrivial=len(c["pre"]) + len(c["post"]) > 0 and len(c["raw"]) >= 2)
        for c in cases[:: max(1, len(cases) // 3)][:3]:
            v.sample({"direction": "spec->code", "declaration": univ[c["d"] - 1]["prog"], "raw": c["raw"], "pre": c["pre"],
                      "post": c["post"], "spec_plain": c["u1"]["st"], "spec_padded": c["u2"]["st"], "open_ended": c["u1"]["open"]})
        v.cov["executions_differing_from_spec"] = v.cov.get("executions_differing_from_spec", 0) + len(mism)
        todo = common.spread2(mism, lambda m: m["d"], lambda m: json.dumps(m["gen"]), 600)
        if todo:
            judged = pp.judge_cases(v, univ, [], gens, OWNED, "Trace_Packet on %d recorded pairs differing from the specification" % len(todo),
                                    c01=False, extra_records=[(m["rec"], {"d": m["d"], "gen": m["gen"], "extra": m["extra"]}) for m in todo])
            pp.decide(v, judged, OWNED)
        if len(v.violations) >= 50:
            break
    if total == 0:
        raise common.MachineryFailure("MC_Context emitted nothing")
    long_prefix_part(v, univ, keep_cases, gens, quick)
    # random declarations and contexts
    from bind import randdecl, declgen, trace_packet as tp
    rnd = random.Random(seed)
    recs = []
    nrand = 500 if quick else 5000
    with declgen.Scratch() as sc:
        tries = 0
        while len(recs) < nrand and tries < nrand * 4:
            tries += 1
            d = randdecl.gen_decl(rnd, "c14")
            if randdecl.uses_begins(d):
                continue
            try:
                mods = [sc.load(d["prog"], g) for g in gens]
            except RuntimeError:
                continue
            for raw, _ in randdecl.gen_inputs(rnd, d, mods[0], k=4):
                raw = raw.lstrip(bytes([238]))
                pre = bytes(rnd.choice(randdecl.ALPHA) for _ in range(rnd.choice([0, 1, 2, 5])))
                post = bytes(rnd.choice(randdecl.ALPHA) for _ in range(rnd.choice([0, 0, 1, 3])))
                for g, mod in zip(gens, mods):
                    r1 = rp.run_unpack(mod, d["root"], raw, 0)
                    r2 = rp.run_unpack(mod, d["root"], pre + raw + post, len(pre))
                    rec, extra = tp.make_record(d, raw, 0, g, r1, None, False)
                    rec.update(has2=True, shift=len(pre), nopost=len(post) == 0, cu2=tp.uobs(r2))
                    recs.append((rec, {"d": None, "gen": g, "extra": extra}))
    judged = pp.judge_cases(v, None, [], gens, OWNED, "Trace_Packet on %d recorded pairs of random declarations/contexts" % len(recs),
                            c01=False, extra_records=recs)
    pp.decide(v, judged, OWNED)
    for rec, meta, names in judged[:2]:
        v.sample({"direction": "code->spec", "declaration": rec["prog"], "raw": rec["raw"], "shift": rec["shift"],
                  "code_plain": rec["cu"]["st"], "code_padded": rec["cu2"]["st"], "failed_clauses": sorted(names)})
    for rec, meta, names in judged:
        v.count_case(("rand", json.dumps(rec["prog"], sort_keys=True), tuple(rec["raw"]), rec["shift"]), nontrivial=rec["shift"] > 0)
    v.cov["exhaustive"] = True
    v.cov["rule"] = ("TLC enumerates declarations of %s x all inputs x pre/post contexts over the declaration's alphabet "
                     "(length <= %d) in lockstep; every pair replayed on real classes (generic + generated); differing pairs "
                     "recorded and judged by TLC on C14_Lockstep; plus random declarations/contexts. non-trivial = non-empty "
                     "context and input of >= 2 bytes; distinct by (declaration, input, pre, post)." % (universe, 1 if quick else 2))
    v.assumptions = ["declarations with absolute positioning ('begins', class align, per-element alignment) and raw-inspecting "
                     "callables are outside C14 as stated", "open-ended scans exempt exactly as the property says (decided by the specification)"]
    return v.finish()
