"""Table-driven packet-level property checks (shared procedure: lib/packetprofile.py)."""
from lib import common, packetprofile as pp
from bind import replay_packet as rp

CONF_U = {"conf_outcome", "conf_values", "conf_end"}
CONF_P = {"conf_pack_outcome", "conf_out"}

PROFILES = {
 "C06": dict(universes=["U_C06", "U_Long", "U_LongC06"], invs=["Inv_Machine", "Inv_C04_Exact", "Inv_C12_Shape"],
             owned=CONF_U | CONF_P, rand="data", c01=False, bonus=2,
             nrand=(600, 6000),
             # third way of writing: every callable is an instance of a class with __call__ (no __code__ to look at)
             gens=[rp.GEN_OFF, None, {"callables": "object", "generate_for_pack": False}]),
 "C08": dict(universes=["U_C08", "U_C01_Root"], invs=["Inv_Machine", "Inv_C04_Exact", "Inv_C12_Shape"],
             owned=CONF_U | CONF_P, rand="control", c01=False, bonus=1, nrand=(600, 6000),
             # (under the field loop every callable is written as a functools.partial with a bound keyword)
             gens=[dict(rp.GEN_OFF, callables="partial"), None]),
 "C10": dict(universes=["U_C10", "U_LongC10"], invs=["Inv_Machine", "Inv_C10_Same", "Inv_C10_Least", "Inv_C01_Fill"],
             owned={"conf_evs", "conf_pevs", "conf_end", "conf_writes", "conf_out", "conf_outcome", "conf_pack_outcome",
                    "C10_Same", "C10_Least", "C01_Fill"},
             rand="position", c01=True, bonus=1, nrand=(600, 6000),
             # described Move targets: conformance only (a pack writes the computed value, so the positions of a
             # parse and of the following pack may differ without any fault)
             extra=[("U_C10_Desc", ["Inv_Machine"], {"conf_evs", "conf_pevs", "conf_end", "conf_writes", "conf_out",
                                                     "conf_outcome", "conf_values"})]),
 "C12": dict(universes=["U_C12", "U_C10_Flat", "U_LongC12"], invs=["Inv_Machine", "Inv_C12_Shape"],
             owned={"conf_err", "conf_perr", "conf_err_depth", "C12_Shape", "C12.unpack_raises_only_PacketError",
                    "C12.pack_raises_only_PacketError", "C12.str_total", "C12.phase", "C12.silent",
                    "C12.not_bytes", "C04_OverAccept"},
             rand="mixed", c01=False, bonus=1, nrand=(800, 8000)),
 "C04": dict(universes=["U_C06", "U_C07_24", "U_C12", "U_C04_Lone", "U_Long", "U_LongC06", "U_Wide"], invs=["Inv_Machine", "Inv_C04_Exact"],
             owned={"C04_Exact", "C04_OverAccept"}, rand="mixed", c01=False, bonus=1, nrand=(800, 8000)),
 "C01": dict(universes=["U_C01", "U_LongC01"], quick_universes=["U_C01_Q", "U_LongC01"], invs=["Inv_Machine", "Inv_C01_Bytes", "Inv_C01_Fill", "Inv_C01_Len",
                                        "Inv_C01_OverlapRaises", "Inv_C01_RaiseOnlyOnOverlap"],
             owned={"C01_Bytes", "C01_Fill", "C01_Len", "C01_OverlapRaises", "C01_RaiseOnlyOnOverlap"},
             rand="c01", c01=True, bonus=1, nrand=(800, 8000)),
 "C07": dict(universes=["U_C07"], invs=["Inv_Machine", "Inv_C04_Exact"],
             owned=CONF_U | CONF_P, rand="bits", c01=False, bonus=0, nrand=(400, 4000)),
}

RULE = ("TLC enumerates the universe(s) %s x all strings over a per-declaration small alphabet up to the declared "
        "length (+%d) x start offsets; every terminal behaviour is replayed on real classes under generic and "
        "generated code; cases differing anywhere are recorded and judged by TLC (Trace_Packet) on the clauses this "
        "property owns (%s); plus seeded random declarations beyond the bounds. non-trivial = at least two field "
        "steps or two slices; distinct by (declaration, input, start), hashed.")


def run(pid, tier, seed, gens=None):
    P = PROFILES[pid]
    v = common.Verdict(pid, tier, seed)
    common.bind_repo()
    quick = tier == "quick"
    gens = gens or P.get("gens") or [rp.GEN_OFF, None]
    bonus = 0 if quick else P["bonus"]
    for u in (P.get("quick_universes") if quick and P.get("quick_universes") else P["universes"]):
        pp.exhaustive_part(v, u, P["invs"], gens, P["owned"], lenbonus=bonus, c01=P["c01"], nparts=8 if quick else 48)
    for (u, invs, owned) in P.get("extra", []):
        pp.exhaustive_part(v, u, invs, gens, owned, lenbonus=bonus, c01=False, nparts=8)
    if pid == "C04":
        # the truncation relation itself, on the specification: two machines in lockstep on raw and raw[:k]
        from concurrent.futures import ThreadPoolExecutor
        from lib.tlcrun import run_tlc
        for u in (["U_C07_24"] if quick else ["U_C07_24", "U_C12", "U_C06"]):
            def cfgtext(k, u=u):
                return ('SPECIFICATION Spec\nCONSTANT UName = "%s"\nCONSTANTS Part = %d NParts = 8\nINVARIANT Inv_C04_Cut\n'
                        'INVARIANT Inv_C04_CutBeyond\n' % (u, k))
            with ThreadPoolExecutor(8) as ex:
                parts = list(ex.map(lambda k: run_tlc("MC_Cut", cfg_text=cfgtext(k), workers=2, heap="3g", timeout=5000), range(8)))
            res = parts[0]
            for r in parts[1:]:
                res.violation = res.violation or r.violation
                res.generated += r.generated
                res.distinct += r.distinct
                res.wall_s = max(res.wall_s, r.wall_s)
            if res.violation:
                raise common.MachineryFailure("MC_Cut(%s) violates %s on its own model:\n%s" % (u, res.violation["name"], res.violation["trace_text"][-2000:]))
            v.add_tlc(res, "MC_Cut U=%s: raw and raw[:k] in lockstep (Inv_C04_Cut, Inv_C04_CutBeyond)" % u)
    if pid == "C01":
        # parse-then-serialise of runs of bit fields wider than the packet machine's integers (BitsWide.tla)
        from props import C07
        C07.wide_part(v, quick, seed, "C01")
    if pid == "C12":
        # failures of pack(): out-of-range / wrongly typed values, colliding positions, failing before-pack hooks
        from lib import valuesprofile as vp
        vp.exhaustive_part(v, "U_C12V", [], gens, {"conf_perr", "C12.phase", "C12.pack_raises_only_PacketError", "conf_pack_outcome"})
    pp.random_part(v, seed, P["nrand"][0 if quick else 1], gens, P["owned"], P["rand"], c01=P["c01"])
    v.cov["exhaustive"] = True
    v.cov["rule"] = RULE % (", ".join(P["universes"]), bonus, ", ".join(sorted(P["owned"])))
    v.assumptions = ["exhaustive only inside the stated bounds; regex delimiters limited to the modelled library; "
                     "Int widths <= 3 bytes in the packet machine (wider ones: C05)",
                     "observation points installed from the harness (TracedBytes, TracedFragments, get_fields wrappers)"]
    return v.finish()
