"""C18 - the regexp pre-filter never rejects a matching packet (DESIGN.md 5.18).
Regexp.tla: Render (the token list assembled by the pack_regexp methods of Int, Data and Bits for a pattern packet whose
fields are literals or Any) and MatchesPrefix (what re.match decides for such a token list).  MC_Regexp: for every flat
declaration of U_C18 (every sizing mode, kept regex delimiters, bit runs with fixed low / mixed bits, alphabets made of
regex metacharacters) x every input s that unpacks x every subset of fields fixed to the values parsed from s: the
rendered expression matches s (Inv_C18_Sound), and every other candidate that unpacks to a packet equal to the pattern
is matched too.  Replay: the real as_regular_expression() is built for every case (building must not fail) and its
match() on s and on the candidate is compared with the specification's matcher; soundness is evaluated on the code
itself (a string whose unpack() equals the pattern must match; filter() with and without the pre-filter agree)."""
import json
import multiprocessing
from concurrent.futures import ThreadPoolExecutor

from lib import common
from lib.tlcrun import run_tlc

_W = {}


def _winit(univ):
    common.bind_repo()
    from bind import declgen
    _W["sc"] = declgen.Scratch()
    _W["univ"] = univ
    import atexit
    atexit.register(_W["sc"].close)


def _wrun(chunk):
    from bind import observe
    from bisturi.pattern_matching import Any, filter as bfilter
    out = []
    n = 0
    for c in chunk:
        d = _W["univ"][c["d"] - 1]
        mod = _W["sc"].load(d["prog"], None)
        cls = mod.C0
        n += 1
        try:
            pkt = cls()
            for e in c["pattern"]:
                if e["lit"]:
                    val = observe.build_value(mod, e["v"])
                elif e.get("like", {"kind": "none"})["kind"] == "none":
                    val = Any()
                else:       # a placeholder with an expression of its own: Any(startswith= / endswith= / contains=)
                    kw = {"starts": "startswith", "ends": "endswith", "contains": "contains"}[e["like"]["kind"]]
                    val = Any(**{kw: bytes(e["like"]["b"])})
                setattr(pkt, e["n"], val)
            rx = pkt.as_regular_expression()
        except Exception as ex:
            out.append({"clause": "C18_Builds", "detail": "building the expression raised %s: %s" % (type(ex).__name__, str(ex)[:200]), "case": c})
            continue
        for x, spec_m, tag in ((c["s"], c["m_s"], "s"), (c["cand"], c["m_c"], "cand")):
            raw = bytes(x)
            m = bool(rx.match(raw))
            try:
                p = cls.unpack(raw, silent=True)
                eq = p is not None and (pkt == p)
            except Exception as ex:
                out.append({"clause": "C18_Sound", "detail": "comparing the pattern with the parsed packet raised %s" % type(ex).__name__, "case": c})
                continue
            if eq and not m:
                out.append({"clause": "dev_F9c" if c["dev9c"] else "C18_Sound",
                            "detail": "%r unpacks to a packet equal to the pattern but the pre-filter %r rejects it" % (raw, rx.pattern), "case": c})
            elif m != spec_m and not c["dev9c"]:
                out.append({"clause": "conf_regex", "detail": "%s %r: real expression %r %s, specification's tokens %s" % (
                    tag, raw, rx.pattern, "matches" if m else "does not match", "match" if spec_m else "do not match"), "case": c})
        try:
            cands = [bytes(c["s"]), bytes(c["cand"])]
            a = [observe.abs_packet(p)["vals"] for p in bfilter(pkt, cands, filter_with_regexp_first=True)]
            b = [observe.abs_packet(p)["vals"] for p in bfilter(pkt, cands, filter_with_regexp_first=False)]
            if a != b:
                out.append({"clause": "dev_F9c" if c["dev9c"] else "C18_Sound",
                            "detail": "filter() returns %d packets with the pre-filter and %d without" % (len(a), len(b)), "case": c})
        except Exception as ex:
            out.append({"clause": "C18_Sound", "detail": "filter() raised %s" % type(ex).__name__, "case": c})
    return n, out


def run(tier, seed):
    v = common.Verdict("C18", tier, seed)
    common.bind_repo()
    quick = tier == "quick"
    nparts = 8

    def cfg(k):
        return ("SPECIFICATION Spec\nCONSTANTS Part = %d NParts = %d CandLen = %d\nINVARIANT Inv_C18_Sound\nINVARIANT Inv_C18_SoundCand\nINVARIANT Emit\n"
                % (k, nparts, 1 if quick else 2))
    with ThreadPoolExecutor(nparts) as ex:
        parts = list(ex.map(lambda k: run_tlc("MC_Regexp", cfg_text=cfg(k), workers=2, heap="3g", timeout=3000), range(nparts)))
    res = parts[0]
    for r in parts[1:]:
        res.violation = res.violation or r.violation
        res.generated += r.generated
        res.distinct += r.distinct
        res.emits.extend(r.emits)
        res.wall_s = max(res.wall_s, r.wall_s)
    if res.violation:
        raise common.MachineryFailure("MC_Regexp violates %s:\n%s" % (res.violation["name"], res.violation["trace_text"][-2000:]))
    v.add_tlc(res, "MC_Regexp: U_C18 x inputs that unpack x subsets of fixed fields x derived candidates")
    cases = sorted(res.emits, key=lambda c: c["d"])
    for c in cases:
        v.count_case((c["d"], tuple(c["s"]), json.dumps(c["pattern"]), tuple(c["cand"])),
                     nontrivial=any(e["lit"] for e in c["pattern"]) and not all(e["lit"] for e in c["pattern"]))
    for c in cases[:: max(1, len(cases) // 3)][:3]:
        v.sample({"direction": "spec->code", "declaration": res.univ[c["d"] - 1]["prog"], "input": c["s"],
                  "pattern": [[e["n"], e["v"] if e["lit"] else "Any"] for e in c["pattern"]], "tokens": c["tokens"], "matches": c["m_s"]})
    chunks = [cases[i:i + 300] for i in range(0, len(cases), 300)]
    ctx = multiprocessing.get_context("fork")
    n = 0
    bad = []
    with ctx.Pool(14, initializer=_winit, initargs=(res.univ,)) as pool:
        for k, out in pool.imap_unordered(_wrun, chunks):
            n += k
            bad.extend(out)
    v.cov["traces_validated_against_impl"] += n
    drift = 0
    for b in bad:
        if b["clause"] == "dev_F9c":
            v.deviation("F9c", "Inv_C18_Sound", b["detail"], {"input": b["case"]["s"], "pattern": b["case"]["pattern"], "d": b["case"]["d"]})
        elif b["clause"] == "conf_regex":
            drift += 1      # the real expression and the specification's tokens disagree on a string the property does not speak about
        elif len(v.violations) < 50:
            v.violation(b["clause"], b["detail"], {"declaration": res.univ[b["case"]["d"] - 1]["prog"], "case": b["case"]})
    v.cov["matcher_disagreements_on_non_matching_candidates"] = drift
    v.cov["exhaustive"] = True
    v.cov["rule"] = ("TLC enumerates U_C18 (17 flat declarations) x all inputs over the declaration's alphabet (regex metacharacters "
                     "included) that unpack x every subset of fields fixed to the parsed values x candidates derived from the input; "
                     "non-trivial = a proper, non-empty subset of fields fixed; distinct by (declaration, input, pattern, candidate).")
    v.assumptions = ["regex delimiters limited to the modelled library, kept in the value (as C18 states)",
                     "positioned fields, nested packets, repeated/optional fields have no pack_regexp: outside C18's flat declarations"]
    return v.finish()
