"""C02 - serialize-then-parse reproduces the packet (DESIGN.md 5.2).
MC_Values: every declaration of U_C02 x every complete value assignment from small per-kind domains
(boundary integers, empty and maximal lists, absent optionals, nested packets); `ConsistentPkt` is the
structural definition of "values that satisfy the declaration"; for consistent assignments TLC checks
Inv_C02_Reparse and Inv_C02_Layout (independent concatenation of encodings).  Replay builds the packet by
constructor arguments and by attribute assignment, packs, re-parses, calls assert_consistency()."""
from lib import common, valuesprofile as vp
from bind import replay_packet as rp

OWNED = {"C02_PackSucceeds", "C02_PackSucceedsPos", "C02_Layout", "C02_Reparse", "C02_PosReparse", "C02_AssertConsistency", "conf_assert_consistency",
         # the bytes are each field's encoding at its declared position: with positioning the pack machine
         # (reference placement rules, MoveTarget) determines them uniquely; so does a re-pack after assignment
         "conf_out", "conf_out2", "C07_Pack2"}


def run(tier, seed):
    v = common.Verdict("C02", tier, seed)
    common.bind_repo()
    gens = [rp.GEN_OFF, None]
    vp.exhaustive_part(v, "U_C02", ["Inv_C02_Reparse", "Inv_C02_Layout"], gens, OWNED)
    vp.exhaustive_part(v, "U_C02_Pos", ["Inv_C02_Reparse", "Inv_C02_Layout", "Inv_Pack2", "Inv_C02_PosReparse"], gens, OWNED)
    # long values named explicitly (bodies of 64 KiB in front of a two-byte marker, 520 multi-byte elements, ...)
    vp.exhaustive_part(v, "U_C02_Long", ["Inv_C02_Reparse", "Inv_C02_Layout"], gens, OWNED)
    v.cov["exhaustive"] = True
    v.cov["rule"] = ("TLC enumerates U_C02 x all complete value assignments from the per-kind domains (Values.tla); each is "
                     "constructed (constructor and attribute assignment), packed and re-parsed on real classes under generic and "
                     "generated code; differing executions are judged by TLC (Trace_Values) on the clauses C02 owns. "
                     "non-trivial = at least two value-bearing fields; distinct by (declaration, K).")
    v.assumptions = ["exhaustive inside the value domains of Values.tla; declarations with positioning are covered by C01/C10"]
    return v.finish()
