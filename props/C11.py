"""C11 - the output buffer never loses, overwrites or misplaces bytes.

Decision procedure (DESIGN.md 5.11):
  1. TLC, exhaustive: MC_Fragments (reference sparse array + implemented algorithm in
     lockstep) - all histories of insert/append/cursor-set within the bounds, invariants
     Inv_C11_* and action properties Prop_C11_*.
  2. spec -> code: the same model with the history variable emits every maximal history;
     each is executed on bisturi.fragments.Fragments from /repo, comparing raise/no raise,
     cursor and tobytes() after every operation.
  3. code -> spec: seeded random histories (longer, wider, all byte values, extend()) are run
     on the real class, recorded, and validated by TLC against Trace_Fragments, which
     re-evaluates the invariants at every step.
"""
import json
import os
import random
import tempfile

from lib import common
from lib.tlcrun import run_tlc, TLCError

CFG = """SPECIFICATION Spec
CONSTANTS
  MaxOps = %(ops)d
  MaxPos = %(pos)d
  MaxLen = %(len)d
  Alphabet = {65, 66}
  KeepHist = %(hist)s
  AsIs = TRUE
INVARIANT Inv_C11_RaiseExact
INVARIANT Inv_C11_Cursor
INVARIANT Inv_C11_Mem
INVARIANT Inv_C11_ToBytes
INVARIANT Inv_Struct
PROPERTY Prop_C11_NoLoss
PROPERTY Prop_C11_RaiseNoEffect
%(emit)s
"""


def _apply(F, f, op, p, s, k):
    """Execute one model operation on the real object; returns raised?"""
    try:
        if op == "insert":
            f.insert(p, s)
        elif op == "append":
            if k % 2:
                f.append(s)
            else:
                f.extend([s])
        elif op == "setcur":
            f.current_offset = p
        else:
            raise common.MachineryFailure("unknown op %r" % op)
        return False
    except common.MachineryFailure:
        raise
    except Exception:
        return True


def replay_histories(v, hists):
    from bisturi.fragments import Fragments
    n_steps = 0
    dev_not_reproduced = 0
    for hist in hists:
        f = Fragments()
        case = [[e["op"], e["p"], e["s"]] for e in hist]
        v.count_case(json.dumps(case), nontrivial=len(hist) >= 2)
        for k, e in enumerate(hist):
            s = bytes(e["s"])
            raised = _apply(Fragments, f, e["op"], e["p"], s, k)
            n_steps += 1
            out = f.tobytes()
            obs = {"raised": raised, "cur": f.current_offset, "out": list(out)}
            exp = {"raised": e["raised"], "cur": e["cur"], "out": e["out"]}
            if e["falsecol"]:
                # named deviation point F5(a): the model (as-is) raises, the sparse array would store
                if raised:
                    v.deviation("F5a", "Inv_C11_RaiseExact", "false collision on empty successor",
                                {"history": case, "step": k})
                else:
                    dev_not_reproduced += 1
                    # check the ideal outcome for this one step, then leave the history
                    if f.current_offset != e["p"] + len(s):
                        v.violation("Inv_C11_Cursor", "cursor %r after storing at a repaired deviation point"
                                    % f.current_offset, {"history": case, "step": k})
                    break
            if obs != exp:
                clause = ("Inv_C11_RaiseExact" if obs["raised"] != exp["raised"] else
                          "Inv_C11_Cursor" if obs["cur"] != exp["cur"] else "Inv_C11_ToBytes")
                v.violation(clause, "step %d: code %r, specification %r" % (k, obs, exp),
                            {"history": case, "step": k, "code": obs, "spec": exp})
                break
        else:
            v.sample({"direction": "spec->code", "history": case,
                      "final_bytes": bytes(hist[-1]["out"]).decode("latin1") if hist else ""}, cap=3)
        v.cov["traces_validated_against_impl"] += 1
    v.cov["replayed_steps"] = v.cov.get("replayed_steps", 0) + n_steps
    v.cov["deviation_points_not_reproduced"] = dev_not_reproduced


def record_random_traces(seed, n, maxops, maxpos, maxlen):
    """Run seeded random histories on the real class; return the recorded traces."""
    from bisturi.fragments import Fragments
    rnd = random.Random(seed)
    traces = []
    for _ in range(n):
        f = Fragments()
        tr = []
        ends = [0]
        nops = rnd.randint(1, maxops)
        while len(tr) < nops:
            kind = rnd.random()
            L = rnd.choice([0, 0, 1, 1, 2, 3, maxlen])
            def chunk(L=L):
                return bytes(rnd.randrange(256) for _ in range(L))
            if kind < 0.55:
                # insert near an existing boundary (adjacent / overlapping / nested) or anywhere
                if rnd.random() < 0.7:
                    p = max(0, rnd.choice(ends) + rnd.randint(-3, 3))
                else:
                    p = rnd.randint(0, maxpos)
                s = chunk()
                try:
                    f.insert(p, s); raised = False
                except Exception:
                    raised = True
                tr.append({"op": "insert", "p": p, "s": list(s), "raised": raised,
                           "cur": f.current_offset, "out": list(f.tobytes())})
                if not raised:
                    ends += [p, p + len(s)]
            elif kind < 0.75:
                s = chunk()
                p = f.current_offset
                try:
                    f.append(s); raised = False
                except Exception:
                    raised = True
                tr.append({"op": "append", "p": p, "s": list(s), "raised": raised,
                           "cur": f.current_offset, "out": list(f.tobytes())})
                if not raised:
                    ends += [p, p + len(s)]
            elif kind < 0.88:
                # extend(): one event per element actually inserted; a raise ends the call
                chunks = [bytes(rnd.randrange(256) for _ in range(rnd.randint(0, maxlen)))
                          for _ in range(rnd.randint(1, 3))]
                log = []
                class Spy(list):
                    pass
                def gen():
                    for c in chunks:
                        log.append((f.current_offset, c))
                        yield c
                try:
                    f.extend(gen()); raised = False
                except Exception:
                    raised = True
                for j, (p, c) in enumerate(log):
                    last = j == len(log) - 1
                    # intermediate states are reconstructed only for the final element;
                    # earlier elements did not raise, their cursor is p + len
                    if last:
                        tr.append({"op": "append", "p": p, "s": list(c), "raised": raised,
                                   "cur": f.current_offset, "out": list(f.tobytes())})
                    else:
                        tr.append({"op": "append", "p": p, "s": list(c), "raised": False,
                                   "cur": p + len(c), "out": None})
                    ends += [p, p + len(c)]
            else:
                p = max(0, rnd.choice(ends) + rnd.randint(-2, 4))
                f.current_offset = p
                tr.append({"op": "setcur", "p": p, "s": [], "raised": False,
                           "cur": f.current_offset, "out": list(f.tobytes())})
        traces.append(tr)
    return traces


def record_long_histories(seed, quick):
    """histories of hundreds of operations (more fragments than any index shortcut is tuned for): front-to-back records with
    gaps, a backward insert into an early gap, then an append that runs into an early fragment; an empty chunk far out
    followed by hundreds of appends below it; long random histories.  The string is logged at checkpoints and at the end."""
    from bisturi.fragments import Fragments
    rnd = random.Random(seed + 17)
    traces = []

    def ev(f, op, p, s, step, every=97, force=False):
        try:
            if op == "setcur":
                f.current_offset = p
            elif op == "append":
                f.append(s)
            else:
                f.insert(p, s)
            raised = False
        except Exception:
            raised = True
        chk = force or step % every == 0
        return {"op": op, "p": p, "s": list(s), "raised": raised, "cur": f.current_offset,
                "out": list(f.tobytes()) if chk else [], "chk": chk}
    for n in ((70, 130) if quick else (70, 130, 300, 600)):
        for gap_at in (1, n // 2):
            for tail in (b"yyy", b"y"):
                f = Fragments()
                tr = [ev(f, "insert", 4 * i, bytes([65 + i % 20, 66]), i) for i in range(n)]
                tr.append(ev(f, "insert", 4 * gap_at + 2, b"x", 0, force=True))         # backwards, into an early gap
                tr.append(ev(f, "append", f.current_offset, tail, 0, force=True))         # "yyy" runs into the next record
                tr.append(ev(f, "append", f.current_offset, b"", 0, force=True))
                traces.append(tr)
    for n in ((100, 600) if quick else (100, 600, 800)):
        f = Fragments()
        tr = [ev(f, "insert", 3 * n + 40, b"", 0, force=True), ev(f, "setcur", 0, b"", 0)]
        tr += [ev(f, "append", f.current_offset, bytes([97 + i % 7, 98]), i) for i in range(n)]
        tr.append(ev(f, "append", f.current_offset, b"", 0, force=True))
        traces.append(tr)
    for _ in range(2 if quick else 6):
        f = Fragments()
        tr = []
        for i in range(300 if quick else 500):
            k = rnd.random()
            if k < 0.7:
                tr.append(ev(f, "insert", rnd.randint(0, 1500), bytes(rnd.randrange(256) for _ in range(rnd.choice([0, 1, 1, 2]))), i))
            elif k < 0.9:
                tr.append(ev(f, "append", f.current_offset, bytes(rnd.randrange(256) for _ in range(rnd.choice([0, 1, 2]))), i))
            else:
                tr.append(ev(f, "setcur", rnd.randint(0, 1500), b"", i))
        tr.append(ev(f, "append", f.current_offset, b"", 0, force=True))
        traces.append(tr)
    return traces


def validate_traces(v, traces, label):
    """code -> spec: TLC decides whether each recorded trace is a behaviour of the spec."""
    # events with out=None (inside an extend) get the model's value: drop the conjunct by
    # filling in what the recorder could not see -> we re-run those prefixes on a fresh object
    from bisturi.fragments import Fragments
    for tr in traces:
        f = None
        for i, e in enumerate(tr):
            if e["out"] is None:
                g = Fragments()
                for e2 in tr[:i + 1]:
                    _apply(Fragments, g, "insert" if e2["op"] != "setcur" else "setcur", e2["p"], bytes(e2["s"]), 1)
                e["out"] = list(g.tobytes())
    d = tempfile.mkdtemp(prefix="c11tr_")
    path = os.path.join(d, "traces.json")
    with open(path, "w") as fh:
        json.dump(traces, fh)
    try:
        res = run_tlc("Trace_Fragments", workers=1, env={"TRACE_FILE": path}, timeout=1800)
    finally:
        try:
            os.remove(path); os.rmdir(d)
        except OSError:
            pass
    v.add_tlc(res, label, exhaustive=False)
    if res.violation is not None:
        v.violation(res.violation["name"], "invariant violated on a recorded trace of the real Fragments",
                    {"tlc": res.violation["trace_text"][:4000]})
        return
    rejected = [i for i in range(1, len(traces) + 1) if i not in res.accepts]
    v.cov["traces_validated_against_impl"] += len(traces) - len(rejected)
    for i in rejected[:5]:
        v.violation("Trace_Fragments.Next", "recorded trace %d of the real Fragments is not a behaviour of the "
                    "specification" % i, {"trace": traces[i - 1]})
    for tr in traces[:2]:
        v.sample({"direction": "code->spec", "trace": tr}, cap=5)
    for tr in traces:
        v.count_case(json.dumps([[e["op"], e["p"], e["s"]] for e in tr]), nontrivial=len(tr) >= 2)


def run(tier, seed):
    v = common.Verdict("C11", tier, seed)
    common.bind_repo()
    quick = tier == "quick"
    # 1. exhaustive property check on the merged model
    b = dict(ops=3 if quick else 4, pos=5, len=2, hist="FALSE", emit="")
    res = run_tlc("MC_Fragments", cfg_text=CFG % b, coverage=False, timeout=3000)
    if res.violation:
        raise common.MachineryFailure("specification violates %s on its own model:\n%s" % (
            res.violation["name"], res.violation["trace_text"][:3000]))
    v.add_tlc(res, "MC_Fragments exhaustive ops<=%(ops)d pos<=%(pos)d len<=%(len)d |A|=2" % b)
    # 2. spec -> code
    b2 = dict(ops=2 if quick else 3, pos=5, len=2, hist="TRUE", emit="INVARIANT Emit")
    res2 = run_tlc("MC_Fragments", cfg_text=CFG % b2, timeout=3000)
    if res2.violation:
        raise common.MachineryFailure("replay profile: " + res2.violation["name"])
    v.add_tlc(res2, "MC_Fragments with history (every maximal history emitted), ops=%(ops)d" % b2)
    if not res2.emits:
        raise common.MachineryFailure("replay profile emitted nothing")
    replay_histories(v, res2.emits)
    # 3. code -> spec
    n = 1500 if quick else 12000
    traces = record_random_traces(seed, n, maxops=8 if quick else 12, maxpos=24, maxlen=5)
    validate_traces(v, traces, "Trace_Fragments on %d recorded random histories" % n)
    longs = record_long_histories(seed, quick)
    validate_traces(v, longs, "Trace_Fragments on %d recorded LONG histories (70..%d operations)" % (len(longs), max(len(t) for t in longs)))
    v.cov["exhaustive"] = True
    v.cov["rule"] = ("TLC enumerates every history of insert/append/cursor-set within the bounds "
                     "(positions 0..5, chunks of length <=2 over 2 letters); every maximal history of the "
                     "replay profile is executed on the real class; random recorded histories are "
                     "validated by TLC. A case is a history; non-trivial = at least two operations; "
                     "distinct = different operation sequences (hashed).")
    v.assumptions = ["TLC explores the model exhaustively only inside the stated bounds",
                     "observables compared: raise/no raise, current_offset, tobytes() after every operation"]
    return v.finish()
