"""C07 - bit fields partition their bytes MSB-first and never disturb neighbours (DESIGN.md 5.7).
 (a) unpack side: MC_Packet over U_C07 (all 128 compositions of 8 bits x all 256 byte values; 24-bit groups;
     runs next to other fields, nested, under a little-endian class default), replayed on real classes;
 (b) pack side: MC_Values over U_C07V: every member takes values {0, 1, 2^w-1, 2^w, 2^w+1, -1, -2^w};
     Inv_C07_Isolated: the output is the layout with every value reduced mod 2^w, and a second pack after
     re-assigning one member (state kept between packs must not leak);
 (c) class definition: MC_BitsReject: runs whose widths do not sum to a multiple of 8 are rejected."""
from lib import common, packetprofile as pp, valuesprofile as vp
from lib.tlcrun import run_tlc
from bind import replay_packet as rp

OWNED_U = {"conf_outcome", "conf_values", "conf_end", "conf_pack_outcome", "conf_out"}
OWNED_V = {"C07_Isolated", "C07_Pack2", "conf_out", "conf_out2", "conf_pack_outcome", "conf_pack2_outcome", "ctor_error"}


def reject_part(v):
    from bind import declgen
    res = run_tlc("MC_BitsReject", workers=4)
    if res.violation:
        raise common.MachineryFailure("MC_BitsReject violates %s" % res.violation["name"])
    v.add_tlc(res, "MC_BitsReject (compositions of 1..12 bits, <=4 members, 4 contexts)")
    with declgen.Scratch() as sc:
        for c in res.emits:
            r = sc.load(c["prog"], None, expect_error=True)
            rejected = isinstance(r, Exception)
            kind = type(r.__cause__ or r).__name__ if rejected else ""
            v.count_case(("reject", tuple(c["ws"]), c["ctx"]), nontrivial=len(c["ws"]) >= 2)
            v.cov["traces_validated_against_impl"] += 1
            if rejected == c["definable"]:
                v.violation("C07_Reject", "widths %r (%s): specification says %s, class definition %s %s" % (
                    c["ws"], c["ctx"], "definable" if c["definable"] else "rejected",
                    "raised" if rejected else "succeeded", str(r)[-300:] if rejected else ""), {"case": c})
            elif rejected and type(r).__name__ != "ByteBoundaryError":
                v.violation("C07_Reject", "rejected with something else than ByteBoundaryError: %s" % str(r)[-300:], {"case": c})
    return res.emits


def wide_part(v, quick, seed, pid="C07"):
    """runs of bit fields wider than a TLC integer (32, 40, 48, 64, 72 bits): BitsWide.tla on bit sequences; every emitted case
    is parsed, serialised again, and serialised after one member was re-assigned (too wide by a digit, -1, zero)"""
    import random
    from concurrent.futures import ThreadPoolExecutor
    from bind import declgen

    def cfg(k):
        return "SPECIFICATION Spec\nCONSTANTS Part = %d NParts = 4\nINVARIANT Inv_RoundTrip\nINVARIANT Inv_Isolated\nINVARIANT Emit\n" % k
    with ThreadPoolExecutor(4) as ex:
        parts = list(ex.map(lambda k: run_tlc("BitsWide", cfg_text=cfg(k), workers=4, heap="3g", timeout=1800), range(4)))
    res = parts[0]
    for r in parts[1:]:
        res.violation = res.violation or r.violation
        res.generated += r.generated
        res.distinct += r.distinct
        res.emits.extend(r.emits)
    if res.violation:
        raise common.MachineryFailure("BitsWide violates %s" % res.violation["name"])
    v.add_tlc(res, "BitsWide: runs of 16..72 bits on bit sequences x byte patterns x one re-assigned member")
    rnd = random.Random(seed + 31)
    cases = res.emits if not quick else rnd.sample(res.emits, min(len(res.emits), 6000))
    toint = lambda bits: int("".join(map(str, bits)) or "0", 2)
    nomv = {"kind": "none"}
    n = 0
    with declgen.Scratch() as sc:
        for c in cases:
            prog = {"C0": {"opts": {"endian": "none", "align": 0, "sbl": -1},
                           "fields": [{"k": "Bits", "name": "f%d" % i, "w": w, "dflt": 0, "mv": nomv} for i, w in enumerate(c["ws"])]}}
            for gen in (rp.GEN_OFF, None):
                cls = sc.load(prog, gen).C0
                n += 1
                bad = None
                try:
                    p = cls.unpack(bytes(c["bs"]))
                    got = [getattr(p, "f%d" % i) for i in range(len(c["ws"]))]
                    if got != [toint(m) for m in c["members"]]:
                        bad = ("C07_WideSlices", "members parsed as %r, specification %r" % (got, [toint(m) for m in c["members"]]))
                    elif p.pack() != bytes(c["bs"]):
                        bad = ("C07_WideRoundTrip", "serialised again as %r" % (p.pack(),))
                    else:
                        k = c["k"] - 1
                        newv = toint(c["v"])
                        for val in ([newv, -1] if c["v"] and all(c["v"]) and len(c["v"]) > c["ws"][k] else [newv]):
                            setattr(p, "f%d" % k, val)
                            out = p.pack()
                            if out != bytes(c["bytes2"]):
                                bad = ("C07_WideIsolated", "member %d := %r, serialised as %r, specification %r" % (k, val, out, bytes(c["bytes2"])))
                except Exception as ex:
                    bad = ("C07_WideSlices", "raised %s: %s" % (type(ex).__name__, str(ex)[:150]))
                if bad and len(v.violations) < 20:
                    v.violation(bad[0], "bit fields of widths %r on %r (%s): %s" % (c["ws"], bytes(c["bs"]), "field loop" if gen else "generated code", bad[1]),
                                {"case": c, "gen": gen})
            v.count_case(("wide", tuple(c["ws"]), tuple(c["bs"]), c["k"], tuple(c["v"])), nontrivial=len(c["ws"]) >= 2)
    v.cov["traces_validated_against_impl"] += n
    v.cov["wide_bit_runs_executed"] = n


def reject_history_part(v, emits, seed):
    """the same runs defined ONE AFTER THE OTHER in one module, every class written with one and the same options dictionary
    object (rejected definitions in between): each definition is accepted or rejected on its own widths alone"""
    import importlib.util
    import os
    import random
    import shutil
    import sys
    import tempfile
    cases = [c for c in emits if c["ctx"] == "alone"]
    random.Random(seed + 23).shuffle(cases)
    cases = cases[:400]
    lines = ["from bisturi.packet import Packet", "from bisturi.field import Bits, Int", "OPTS = {'endianness': 'little'}", "RES = []"]
    for i, c in enumerate(cases):
        lines += ["try:", "    class K%d(Packet):" % i, "        __bisturi__ = OPTS"]
        lines += ["        f%d = Bits(%d)" % (j, w) for j, w in enumerate(c["ws"])]
        lines += ["    RES.append('')", "except Exception as e:", "    RES.append(type(e).__name__)"]
    d = tempfile.mkdtemp(prefix="bitshist_")
    try:
        path = os.path.join(d, "bitshist.py")
        with open(path, "w") as fh:
            fh.write("\n".join(lines) + "\n")
        spec = importlib.util.spec_from_file_location("bitshist", path)
        mod = importlib.util.module_from_spec(spec)
        sys.modules["bitshist"] = mod
        spec.loader.exec_module(mod)
        res = list(mod.RES)
    finally:
        sys.modules.pop("bitshist", None)
        shutil.rmtree(d, ignore_errors=True)
    for i, (c, r) in enumerate(zip(cases, res)):
        v.count_case(("reject_history", i, tuple(c["ws"])), nontrivial=True)
        v.cov["traces_validated_against_impl"] += 1
        if (r == "") != c["definable"] or (r not in ("", "ByteBoundaryError")):
            v.violation("C07_Reject", "widths %r defined as the %dth class of a module (after %r, all sharing one options dictionary): "
                        "specification says %s, the class definition %s" % (c["ws"], i, [x["ws"] for x in cases[max(0, i - 2):i]],
                                                                        "definable" if c["definable"] else "rejected",
                                                                        "succeeded" if r == "" else "raised " + r), {"case": c})
            break


def run(tier, seed):
    v = common.Verdict("C07", tier, seed)
    common.bind_repo()
    quick = tier == "quick"
    gens = [rp.GEN_OFF, None]
    for u in (["U_C07"] if quick else ["U_C07", "U_C07_16"]):
        pp.exhaustive_part(v, u, ["Inv_Machine", "Inv_C04_Exact"], gens, OWNED_U, c01=False)
    vp.exhaustive_part(v, "U_C07V", ["Inv_C07_Isolated", "Inv_Pack2", "Inv_C02_Layout"], gens, OWNED_V)
    reject_history_part(v, reject_part(v), seed)
    wide_part(v, quick, seed)
    pp.random_part(v, seed, 300 if quick else 3000, gens, OWNED_U, "bits", c01=False)
    v.cov["exhaustive"] = True
    v.cov["rule"] = ("unpack: all 128 compositions of 8 bits x all 256 byte values (+ compositions of 16 bits with <=4 members x a "
                     "7-value lane alphabet in thorough), 24-bit groups, embedded/nested runs; pack: every member value in "
                     "{0,1,2^w-1,2^w,2^w+1,-1,-2^w}, second pack after re-assigning a member; class definition: compositions of "
                     "1..12 bits in 4 contexts. non-trivial = at least two members / fields; distinct cases hashed.")
    v.assumptions = ["bit groups up to 24 bits in the packet machine (TLC integers); wider groups through the IntCodec module (C05)"]
    return v.finish()
