"""C03 - generated pack/unpack code is equivalent to field-by-field interpretation (DESIGN.md 5.3).
The same declaration is compiled under all 16 combinations of generate_for_pack / generate_for_unpack /
vectorize / annotate.  TLC enumerates U_C03 (runs of fixed-size fields with/without struct code, mixed byte
order and signedness, variable fields, bit groups, a descriptor on a vectorised field, nested packets) x all
inputs; every behaviour is executed under all 16 settings; the observations must agree with each other (and
with the specification).  A case where two settings disagree is recorded as a pair and TLC evaluates C03_SameU /
C03_SameP on it.  The value-driven universes are packed under all 16 settings as well (same bytes, same
failures)."""
import json
import multiprocessing

from lib import common, packetprofile as pp, valuesprofile as vp
from bind import replay_packet as rp, replay_values as rv

OWNED = {"C03_Same"}
_W = {}


def _winit(univ, gens):
    common.bind_repo()
    from bind import declgen
    _W["sc"] = declgen.Scratch()
    _W["univ"] = univ
    _W["gens"] = gens
    import atexit
    atexit.register(_W["sc"].close)


def _key(ro, po):
    return (ro["st"], json.dumps(ro.get("result")), ro.get("endc") if ro["st"] == "done" else None,
            po["st"] if po else None, tuple(po.get("out", [])) if po and po["st"] == "done" else None)


def _wrun(chunk):
    from bind import trace_packet as tp
    out = []
    n = 0
    for c in chunk:
        d = _W["univ"][c["d"] - 1]
        obs = []
        for gen in _W["gens"]:
            mod = _W["sc"].load(d["prog"], gen)
            ro = rp.run_unpack(mod, d["root"], c["raw"], c["start"], with_events=False)
            po = rp.run_pack(mod, ro["pkt"], with_events=False) if ro["st"] == "done" else None
            obs.append((gen, ro, po))
            n += 1
        keys = [_key(ro, po) for _, ro, po in obs]
        u = c["u"]
        spec_key = (u["st"], json.dumps(u["result"]) if u["st"] == "done" else json.dumps(None),
                    u["cur"] if u["st"] == "done" else None,
                    c["p"]["st"] if c["p"]["st"] != "none" else None,
                    tuple(c["p"]["out"]) if c["p"]["st"] == "done" else None)
        if len(set(keys)) > 1:
            # pair: the all-off setting (field loop) against the first setting that differs from it
            base = obs[0]
            other = next(o for o, k in zip(obs, keys) if k != keys[0])
            rec, extra = tp.make_record(d, c["raw"], c["start"], base[0], base[1], base[2], False)
            rec["has3"] = True
            rec["cu3"] = tp.uobs(other[1])
            rec["cp3"] = tp.pobs(other[2])
            out.append({"rec": rec, "d": c["d"], "gen": [base[0], other[0]], "extra": extra, "kind": "pair"})
        elif json.dumps(ro_norm(keys[0])) != json.dumps(ro_norm(spec_key)):
            out.append({"rec": None, "d": c["d"], "gen": None, "extra": {}, "kind": "drift",
                        "detail": "all 16 settings agree with each other but not with the specification: %r" % (c["raw"],)})
    return n, out


def ro_norm(k):
    return [k[0], json.loads(k[1]) if isinstance(k[1], str) else k[1], k[2], k[3], list(k[4]) if k[4] is not None else None]


GEN_OWNED = {"gen_outcome", "gen_values", "gen_end", "gen_pack_outcome", "gen_out"}


def block_machine_part(v, univ, cases, n, seed):
    """code -> spec for GenPacket.tla: sampled behaviours are executed with every observation point installed under the
    field loop and three generated settings; TLC (Trace_Gen) runs the block-step machine of THAT setting and compares read
    log, field events, error stack, write log and results directly.  C03 is violated by a case whose execution under the
    field loop conforms while an execution under generated code does not (the machines themselves are equivalent:
    Inv_C03_Refine); everything else is drift."""
    import random
    from bind import declgen, trace_packet as tp
    rnd = random.Random(seed + 3)
    by_d = {}
    for c in cases:
        by_d.setdefault(c["d"], []).append(c)
    per = max(1, n // max(1, len(by_d)))
    picked = []
    for d, cs in sorted(by_d.items()):
        picked.extend(rnd.sample(cs, min(per, len(cs))))
    gens = [rp.GEN_OFF,
            {"generate_for_pack": True, "generate_for_unpack": True, "vectorize": True, "annotate": False},
            {"generate_for_pack": True, "generate_for_unpack": True, "vectorize": False, "annotate": True},
            {"generate_for_pack": False, "generate_for_unpack": True, "vectorize": True, "annotate": True},
            {"generate_for_pack": True, "generate_for_unpack": False, "vectorize": True, "annotate": False}]
    recs = []
    with declgen.Scratch() as sc:
        for c in picked:
            d = univ[c["d"] - 1]
            for g in gens:
                rec, extra = tp.record(sc.load(d["prog"], g), d, c["raw"], c["start"], g, c01=False)
                recs.append(rec)
    tres, out = tp.judge(recs, module="Trace_Gen")
    v.add_tlc(tres, "Trace_Gen on %d recorded executions (%d behaviours x field loop + 4 generated settings): read log, events, "
              "error stack, write log against the block-step machine of the setting" % (len(recs), len(picked)), exhaustive=False)
    drift = {}
    for i in range(0, len(recs), len(gens)):
        names = [out.get(i + k) for k in range(len(gens))]
        if any(x is None for x in names):
            raise common.MachineryFailure("Trace_Gen gave no verdict for record %d" % i)
        base_ok = not (set(names[0]) & GEN_OWNED)
        for k in range(1, len(gens)):
            mine = sorted(set(names[k]) & GEN_OWNED)
            if mine and base_ok:
                v.violation("C03_Same", "the execution under the field loop conforms to the generic machine, the one under %s does not "
                            "conform to the block-step machine (%s), and TLC showed the two machines equivalent" % (gens[k], mine),
                            {"case": pp.small(recs[i + k]), "gen": gens[k], "cu": recs[i + k]["cu"], "cp": recs[i + k]["cp"],
                             "generic_cu": recs[i]["cu"], "generic_cp": recs[i]["cp"]})
            for nme in names[k]:
                if not (nme in GEN_OWNED and base_ok):
                    drift[nme] = drift.get(nme, 0) + 1
        for nme in names[0]:
            drift[nme] = drift.get(nme, 0) + 1
        v.cov["traces_validated_against_impl"] += len(gens)
    v.cov["block_machine_records"] = len(recs)
    if drift:
        v.cov.setdefault("model_drift_not_owned", {})
        for k, c in drift.items():
            v.cov["model_drift_not_owned"][k] = v.cov["model_drift_not_owned"].get(k, 0) + c


def run(tier, seed):
    v = common.Verdict("C03", tier, seed)
    common.bind_repo()
    quick = tier == "quick"
    gens = rp.gen_combos()      # gens[0] = everything off
    # Inv_C03_Refine: the block-step machines of GenPacket.tla (what generated code does) refine the generic machines
    res = pp.run_mc(v, "U_C03_Q" if quick else "U_C03", ["Inv_Machine", "Inv_C04_Exact", "Inv_C03_Refine"], lenbonus=0 if quick else 1)
    if not quick:
        # the same refinement on the other packet universes (control flow, positioning, error stacks, long inputs)
        for u in ("U_C12", "U_C08", "U_C10_Flat", "U_C04_Lone", "U_C06"):
            for r in pp.run_mc_waves(v, u, ["Inv_C03_Refine"], label="MC_Packet U=%s Inv_C03_Refine (block-step machines refine the generic ones)" % u, emit=False):
                pass
    cases = sorted(res.emits, key=lambda c: c["d"])
    chunks = [cases[i:i + 60] for i in range(0, len(cases), 60)]
    ctx = multiprocessing.get_context("fork")
    n = 0
    diffs = []
    with ctx.Pool(14, initializer=_winit, initargs=(res.univ, gens)) as pool:
        for k, out in pool.imap_unordered(_wrun, chunks):
            n += k
            diffs.extend(out)
    v.cov["traces_validated_against_impl"] += n
    for c in cases:
        v.count_case((c["d"], tuple(c["raw"]), c["start"]), nontrivial=len(c["u"]["reads"]) >= 2)
    for c in cases[:: max(1, len(cases) // 3)][:3]:
        v.sample({"direction": "spec->code x 16 settings", "declaration": res.univ[c["d"] - 1]["prog"], "raw": c["raw"],
                  "spec_unpack": c["u"]["st"], "spec_values": c["u"]["result"]})
    pairs = [x for x in diffs if x["kind"] == "pair"]
    drift = [x for x in diffs if x["kind"] == "drift"]
    v.cov["settings_disagreeing_cases"] = len(pairs)
    v.cov["model_drift_cases"] = len(drift)
    if pairs:
        todo = pairs[:300]
        judged = pp.judge_cases(v, res.univ, [], gens, OWNED, "Trace_Packet on %d recorded pairs of settings that disagree" % len(todo),
                                c01=False, extra_records=[(x["rec"], {"d": x["d"], "gen": x["gen"], "extra": x["extra"]}) for x in todo])
        pp.decide(v, judged, OWNED)
    block_machine_part(v, res.univ, cases, 1500 if quick else 12000, seed)
    # pack side: all well-typed (and ill-typed) values of the value universes under all 16 settings
    # (Inv_C03_RefineP: the block-step PACK machine serialises every constructed packet like the generic one, failures included)
    vres = vp.run_mc(v, "U_C02" if not quick else "U_C03V", ["Inv_C02_Layout", "Inv_C03_RefineP"])
    if not quick:
        for u in ("U_C12V", "U_C07V", "U_C19"):
            vp.run_mc(v, u, ["Inv_C03_RefineP"])
    nn, mism = rv.replay_all(vres.univ, vres.emits, gens)
    v.cov["traces_validated_against_impl"] += nn
    by_case = {}
    REL = {"conf_pack_outcome", "conf_out", "conf_outcome", "conf_values", "conf_construct", "conf_pack2_outcome", "conf_out2"}
    perr = [m for m in mism if "conf_perr" in m["clauses"]]
    v.cov["pack_error_stack_drift"] = len(perr)
    for m in mism:
        if m.get("obs") is None:
            raise common.MachineryFailure("replay harness exception: " + m.get("detail", ""))
        if not (set(m["clauses"]) & REL):
            continue
        key = (m["d"], json.dumps(m["obs"]["K"]), m["how"])
        by_case.setdefault(key, []).append(m)
    for key, ms in by_case.items():
        # only a subset of the settings differs from the specification => the settings disagree with each other
        sigs = {json.dumps([m["obs"].get("cp"), m["obs"].get("cu")], sort_keys=True) for m in ms}
        if len(ms) < len(gens) or len(sigs) > 1:
            o = ms[0]["obs"]
            v.violation("C03_SamePack", "packing differs between code-generation settings (%d of %d settings differ from the specification): %s"
                        % (len(ms), len(gens), sorted(set(sum((m["clauses"] for m in ms), [])))),
                        {"declaration": o["prog"], "K": o["K"], "gens": [m["gen"] for m in ms][:4], "pack": o.get("cp")})
    v.cov["exhaustive"] = True
    v.cov["rule"] = ("TLC enumerates %s x all inputs; each behaviour executed under all 16 option combinations (16 classes per "
                     "declaration, 16 cache files); plus the value universe packed under all 16. non-trivial = at least two slices; "
                     "distinct by (declaration, input, start)." % ("U_C03_Q" if quick else "U_C03"))
    v.assumptions = ["values of the declared types only (a Data(n) value of another length is padded by struct in generated code: out of scope)",
                     "Int widths 1,2,3 and 4 (4-byte values below 2^31) in the packet machine; 8-byte struct codes are covered by C05"]
    return v.finish()
