"""C16 - the code cache survives crashes and concurrent definitions (DESIGN.md 5.16).
CodeCache.tla: processes x file system x crashes.  TLC checks Inv_C16_Safe (every definition that is not killed ends
running its own code) over every initial cache content, every interleaving of the file-system steps of two (thorough:
three) processes defining identical or different same-named classes, and crashes at every step.  Behaviours of the
specification (TLC -simulate, with history) are forced action by action on REAL processes sharing a real cache
directory, comparing the abstracted file system after every action and the outcome of every process; every crash
point of a real cache update (between all file-system calls and after every k-th byte written) is followed by fresh
processes; two live processes are interleaved with up to two pre-emptions at every pair of points."""
import json
import os
import random

from lib import common
from lib.tlcrun import run_tlc


def mc_cfg(repaired, bytecode, crashes, procs="MC_Procs", files="MC_AllShapes", hist=False):
    return ("SPECIFICATION %s\nCONSTANTS Procs <- %s Decls <- MC_Decls SizeOf <- MC_SizeOf InitFiles <- %s\n"
            "CONSTANTS Repaired = %s BytecodeOn = %s MaxCrashes = %d MaxSec = 1 Sequential = FALSE Order <- MC_Order\nINVARIANT Inv_C16_Safe\nINVARIANT Inv_C15_Reuse\n%s" % (
                "SpecH" if hist else "Spec", procs, files, "TRUE" if repaired else "FALSE", "TRUE" if bytecode else "FALSE", crashes,
                "INVARIANT Emit\n" if hist else "INVARIANT Inv_Publish\n"))


def bad_outcomes(outcomes):
    return {p: o for p, o in outcomes.items() if o not in ("own", "crashed")}


def crash_points(v, refs, sources, quick, seed):
    """every crash point of a real cache update, followed by fresh processes"""
    from bind import cache_harness as ch
    n = 0
    rnd = random.Random(seed)
    for d in (["A", "B"] if quick else ["A", "B", "Bp"]):
        # discover the event sequence and the bytes written
        w = ch.World(refs, False)
        c = w.child(d)
        seq = []
        while c.pending is not None:
            seq.append((c.pending["ev"], c.pending.get("n", 0)))
            c.go()
        c.wait()
        w.close()
        total = sum(nb for ev, nb in seq if ev == "write")
        points = [("before", i, None) for i in range(len(seq))]
        step = 9 if quick else 1
        offs = sorted(set(list(range(rnd.randrange(step), total, step)) + [0, 1, total - 1]))
        points += [("byte", None, k) for k in offs]
        for kind, idx, k in points:
            for bytecode in ((False,) if quick else (False, True)):
                w = ch.World(refs, bytecode)
                try:
                    c = w.child(d)
                    acc = 0
                    i = 0
                    while c.pending is not None:
                        ev, nb = c.pending["ev"], c.pending.get("n", 0)
                        if kind == "before" and i == idx:
                            c.crash()
                            break
                        if kind == "byte" and ev == "write" and acc + nb > k:
                            c.crash(after=k - acc)
                            break
                        if ev == "write":
                            acc += nb
                        c.go()
                        i += 1
                    if not c.crashed:
                        c.wait()
                    later = []
                    for d2 in (d, "Bp" if d != "Bp" else "B"):
                        c2 = w.child(d2)
                        c2.run_to_end()
                        later.append((d2, c2.outcome))
                    n += 1
                    v.count_case(("crash", d, kind, idx, k, bytecode), nontrivial=True)
                    for d2, out in later:
                        if out != "own":
                            v.violation("Inv_C16_Safe", "after a writer of %s died %s, a fresh definition of %s ended as %r" % (
                                d, ("before its event #%d (%s)" % (idx, seq[idx][0])) if kind == "before" else "after %d of %d bytes" % (k, total),
                                d2, out), {"decl": d, "crash": [kind, idx, k], "bytecode": bytecode, "later": later})
                finally:
                    w.close()
    v.cov["crash_points_executed"] = n
    v.cov["traces_validated_against_impl"] += n


def first_definitions(v, refs, quick):
    """two processes make the FIRST definition of a class in a source directory (no __pkts__ yet), every pair of pre-emption points"""
    from bind import cache_harness as ch
    n = 0
    for d in (["A"] if quick else ["A", "L", "H"]):
        for k1 in range(0, 8):
            for k2 in range(0, 8):
                w = ch.World(refs, False)
                try:
                    a, b = w.child(d, same_dir=True), w.child(d, same_dir=True)
                    for _ in range(k1):
                        if a.pending is not None:
                            a.go()
                    for _ in range(k2):
                        if b.pending is not None:
                            b.go()
                    a.run_to_end()
                    b.run_to_end()
                    n += 1
                    v.count_case(("first", d, k1, k2), nontrivial=True)
                    for c in (a, b):
                        if c.outcome != "own":
                            v.violation("Inv_C16_Safe", "two processes made the first definition of %s in one directory (no __pkts__ yet): one ended as %r "
                                        "(%d steps of the first, then %d of the second, then the rest)" % (d, c.outcome, k1, k2),
                                        {"decl": d, "k": [k1, k2], "trace": c.trace})
                finally:
                    w.close()
    v.cov["first_definition_interleavings"] = n
    v.cov["traces_validated_against_impl"] += n


def schedules(v, refs, quick, clause="Inv_C16_Safe", pairs=None, sources=None):
    """two live processes, every pair of pre-emption points (context bound 2)"""
    from bind import cache_harness as ch, cache_replay as cr
    n = 0
    if sources is not None:
        # over a cache file left by a THIRD declaration (both processes will replace it), every pair of points
        for d1, d2, d3 in ([("A", "B", "Bp")] if quick else [("A", "B", "Bp"), ("B", "Bp", "A"), ("H", "Hp", "A")]):
            for k1 in range(0, 16):
                for k2 in range(0, 16):
                    w = ch.World(refs, False)
                    try:
                        cr.seed(w, sources, {"file": {"exists": True, "owner": d3, "shape": "complete"}, "pyc": {"exists": False}})
                        a, b = w.child(d1), w.child(d2)
                        for _ in range(k1):
                            if a.pending is not None:
                                a.go()
                        for _ in range(k2):
                            if b.pending is not None:
                                b.go()
                        a.run_to_end()
                        b.run_to_end()
                        n += 1
                        v.count_case(("sched_over", d1, d2, d3, k1, k2), nontrivial=True)
                        for c in (a, b):
                            if c.outcome != "own":
                                v.violation(clause, "process defining %s ended as %r (other process: %s, over a cache file of %s; %d steps of the first, "
                                            "then %d of the second, then the rest)" % (c.decl, c.outcome, d2 if c is a else d1, d3, k1, k2),
                                            {"decls": [d1, d2], "over": d3, "k": [k1, k2], "trace": c.trace})
                    finally:
                        w.close()
    # (a declaration may come with its code-generation options: a class that generates code for ONE direction only and loses
    # the race to publish must still run its own code)
    pairs = pairs or ([("A", "A"), ("A", "B"), ("B", "Bp"), ("H", "Hp"), (("B", "packonly"), "Bp"), ("A", ("Bp", "packonly"))] if not quick
                      else [("A", "B"), ("B", "Bp"), ("H", "Hp"), (("B", "packonly"), "Bp")])
    for d1, d2 in pairs:
        o1, o2 = "default", "default"
        if isinstance(d1, tuple):
            d1, o1 = d1
        if isinstance(d2, tuple):
            d2, o2 = d2
        fine = not quick or (o1, o2) != ("default", "default")      # (every pair of points for the one-direction classes)
        for bytecode in (False, True):
            for k1 in range(0, 16, 1 if fine else 2):
                for k2 in range(0, 16, 1 if fine else 3):
                    w = ch.World(refs, bytecode)
                    try:
                        a, b = w.child(d1, o1), w.child(d2, o2)
                        for _ in range(k1):
                            if a.pending is not None:
                                a.go()
                        for _ in range(k2):
                            if b.pending is not None:
                                b.go()
                        a.run_to_end()
                        b.run_to_end()
                        n += 1
                        v.count_case(("sched", d1, d2, bytecode, k1, k2), nontrivial=True)
                        for c in (a, b):
                            if c.outcome != "own":
                                v.violation(clause, "process defining %s ended as %r (other process: %s; %d steps of the first, then %d of the second, then the rest)"
                                            % (c.decl, c.outcome, d2 if c is a else d1, k1, k2),
                                            {"decls": [d1, d2], "bytecode": bytecode, "k": [k1, k2], "trace": c.trace})
                    finally:
                        w.close()
    v.cov["interleavings_executed"] = n
    v.cov["traces_validated_against_impl"] += n


def run(tier, seed):
    v = common.Verdict("C16", tier, seed)
    common.bind_repo()
    from bind import cache_harness as ch, cache_replay as cr
    quick = tier == "quick"
    # 1. the design: exhaustive
    for bytecode in (True, False):
        res = run_tlc("MC_CodeCache", cfg_text=mc_cfg(True, bytecode, 1 if quick else 2, "MC_Procs"), workers=8, timeout=3000)
        if res.violation:
            raise common.MachineryFailure("CodeCache (repaired protocol) violates %s" % res.violation["name"])
        v.add_tlc(res, "MC_CodeCache repaired protocol, 2 processes, every initial cache content, crashes<=%d, bytecode %s" % (1 if quick else 2, bytecode))
    if not quick:
        res = run_tlc("MC_CodeCache", cfg_text=mc_cfg(True, True, 1, "MC_Procs3", "MC_CompleteOnly"), workers=8, timeout=3000)
        if res.violation:
            raise common.MachineryFailure("CodeCache (3 processes) violates %s" % res.violation["name"])
        v.add_tlc(res, "MC_CodeCache repaired protocol, 3 processes")
    asis = run_tlc("MC_CodeCache", cfg_text=mc_cfg(False, True, 1), workers=4, timeout=600)
    v.cov["pinned_protocol_in_the_model"] = "violates %s (kept as a switch to show the checker sees the difference)" % (
        asis.violation["name"] if asis.violation else "nothing?!")
    # 2. behaviours of the specification forced on real processes
    refs = ch.reference_behaviours(common.REPO)
    sources = cr.Sources(refs)
    nsim = 150 if quick else 1500
    followed = 0
    drift = 0
    for bytecode in (False, True):
        sim = run_tlc("MC_CodeCacheH", cfg_text=mc_cfg(True, bytecode, 1, hist=True), workers=4, simulate=nsim // 8, depth=90, seed=seed + 1, timeout=1200)
        if sim.violation:
            raise common.MachineryFailure("simulation of CodeCache violates %s" % sim.violation["name"])
        v.add_tlc(sim, "MC_CodeCacheH -simulate (behaviours exported with history), bytecode %s" % bytecode, exhaustive=False)
        seen = set()
        for b in sim.emits:
            key = json.dumps(b, sort_keys=True)
            if key in seen:
                continue
            seen.add(key)
            if len(seen) > nsim:
                break
            r = cr.replay(b, refs, sources, bytecode)
            v.cov["traces_validated_against_impl"] += 1
            v.count_case(("beh", key), nontrivial=len(b["sched"]) >= 6)
            followed += 1 if r["followed"] else 0
            drift += 1 if r["mismatches"] else 0
            bad = bad_outcomes(r["outcomes"])
            if bad:
                v.violation("Inv_C16_Safe", "a behaviour of the specification forced on real processes ended with %r (specification: %r)%s" % (
                    bad, b["outcome"], "" if r["followed"] else " [the code did not follow the specified steps: %s]" % (r["mismatches"][:1],)),
                    {"behaviour": b, "real": r["outcomes"], "mismatches": r["mismatches"][:5]})
            elif len(v.cov["samples"]) < 2:
                v.sample({"direction": "spec->code", "init": b["init"], "schedule": [[s["a"], s["p"]] for s in b["sched"]],
                          "real_outcomes": r["outcomes"]})
    v.cov["behaviours_followed_step_by_step"] = followed
    v.cov["behaviours_with_fs_state_drift"] = drift
    # 3. crash points and interleavings enumerated on the real protocol
    crash_points(v, refs, sources, quick, seed)
    schedules(v, refs, quick, sources=sources)
    first_definitions(v, refs, quick)
    v.cov["exhaustive"] = True
    v.cov["rule"] = ("TLC: every interleaving/crash of the protocol model within 2 (3) processes; real processes: TLC-simulated "
                     "behaviours forced step by step, every crash point between file-system calls and after every %s byte of the real "
                     "generated module followed by fresh definitions of the same and of another declaration, all 2-pre-emption "
                     "interleavings of two live definitions (from an empty cache, over a cache file of a third declaration, and as the first "
                     "definitions in a directory without __pkts__); non-trivial = at least 6 steps / any crash; distinct cases hashed." % ("9th" if quick else ""))
    v.assumptions = ["the file system is abstracted to (owner by cookie, shape by compiling the content, bytecode present)",
                     "mtime seconds are forced with os.utime to the model's clock"]
    return v.finish()
