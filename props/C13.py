"""C13 - packets are independent and pack/unpack are observationally pure (DESIGN.md 5.13).
Session.tla / MC_Session.tla: up to MaxLive live packets of related classes (shared sub-packet class, list defaults,
a prototype with its own defaults; a regex-delimited body; a selector expression; described fields that are computed
unless the user assigned them), histories of New / Unpack / SetAttr
/ append-in-place / assign-into-nested / Pack; the state that outlives an operation is the live packets and the
field-object registers.  TLC checks Prop_C13_Bystander and Prop_C13_PackPure.  Every maximal history is executed on real
objects; after EVERY operation the values and the pack() output of ALL live packets and the sharing of mutable
sub-objects between them are compared with the specification.  Two threads parsing/serialising their own packets are
interleaved at field boundaries under schedules enumerated by the harness."""
import json
import multiprocessing
import os
import threading

from lib import common
from lib.tlcrun import run_tlc
from bind import replay_packet as rp

_W = {}


def _winit():
    common.bind_repo()
    from bind import declgen
    _W["sc"] = declgen.Scratch()
    import atexit
    atexit.register(_W["sc"].close)


def snapshot(live):
    from bind import observe
    out = []
    for p in live:
        po = rp.run_pack(None, p, with_events=False)
        vals = [{"n": e["n"], "v": {"t": "other"} if e["v"].get("t") == "other" else e["v"]}
                for e in observe.abs_packet(p, visible=True)["vals"]]      # what the attributes read as
        out.append({"cls": type(p).__name__, "vals": vals,
                    "pack": {"ok": po["st"] == "done", "out": po.get("out", [])}})
    return out


def sharing(live):
    from bind.replay_values import shared_mutables
    bad = []
    for i in range(len(live)):
        for j in range(i + 1, len(live)):
            if shared_mutables(live[i], live[j]):
                bad.append((i + 1, j + 1))
    return bad


def play(mod, hist):
    """-> list of (clause, detail, step) ; deviations flagged separately"""
    from bind import observe
    from bisturi.packet import PacketError
    live = []
    res = []
    prev = []
    for k, st in enumerate(hist):
        o = st["o"]
        try:
            if o["op"] == "new":
                live.append(getattr(mod, o["cls"])(**{e["n"]: observe.build_value(mod, e["v"]) for e in o["arg"]}))
            elif o["op"] == "unpack":
                try:
                    p = getattr(mod, o["cls"]).unpack(bytes(o["arg"]))
                    if not o["ok"]:
                        res.append(("conf_outcome", "unpack succeeded, specification fails", k))
                        break
                    live.append(p)
                except PacketError:
                    if o["ok"]:
                        res.append(("conf_outcome", "unpack failed, specification succeeds", k))
                        break
            elif o["op"] == "set":
                setattr(live[o["pid"] - 1], o["arg"]["n"], observe.build_value(mod, o["arg"]["v"]))
            elif o["op"] == "append":
                getattr(live[o["pid"] - 1], o["arg"]["n"]).append(observe.build_value(mod, o["arg"]["v"]))
            elif o["op"] == "setnested":
                setattr(getattr(live[o["pid"] - 1], o["arg"]["n"]), o["arg"]["f"], observe.build_value(mod, o["arg"]["v"]))
            elif o["op"] == "mutproto":
                setattr(getattr(mod, "PROTO_%s_%s" % (o["arg"]["cls"], o["arg"]["f"])), o["arg"]["a"], o["arg"]["v"])
            elif o["op"] == "pack":
                try:
                    live[o["pid"] - 1].pack()
                except PacketError:
                    pass
        except Exception as ex:
            res.append(("harness_or_escape", "%s raised %s: %s" % (o["op"], type(ex).__name__, str(ex)[:150]), k))
            break
        snap = snapshot(live)
        spec = [{"cls": s["cls"], "vals": s["vals"], "pack": {"ok": s["pack"]["ok"], "out": s["pack"]["out"]}} for s in st["snap"]]
        sh = sharing(live)
        if sh:
            res.append(("C13_NoSharing", "live packets %r share a mutable sub-object after %s" % (sh, o["op"]), k))
        if snap != spec:
            # which packets differ, and was it the one operated on?
            diff = [i + 1 for i in range(min(len(snap), len(spec))) if snap[i] != spec[i]] or ["count"]
            by = [i for i in diff if i != o["pid"]]
            res.append(("C13_Bystander" if by else "conf_touched",
                        "after %s on packet %s: packets %r differ from the specification (code %s / spec %s)" % (
                            o["op"], o["pid"], diff, json.dumps(snap)[:400], json.dumps(spec)[:400]), k))
            break
        # bystanders' pack output relative to the previous real snapshot (named deviation F2 shows here)
        for i in range(min(len(prev), len(snap))):
            if i + 1 != o["pid"] and prev[i]["pack"] != snap[i]["pack"]:
                res.append(("dev_F2" if o.get("dev") else "C13_Bystander",
                            "pack() of packet %d changed from %r to %r when %s ran on packet %s" % (
                                i + 1, bytes(prev[i]["pack"]["out"]), bytes(snap[i]["pack"]["out"]), o["op"], o["pid"]), k))
        prev = snap
    return res


def _wrun(chunk):
    out = []
    n = 0
    for c in chunk:
        for gen in (rp.GEN_OFF, None):
            # freshly defined classes per history: the specification starts every history with empty registers
            _W["nonce"] = _W.get("nonce", 0) + 1
            mod = _W["sc"].load(c["decl"], gen, nonce=(os.getpid(), _W["nonce"]), local=c.get("local", False))
            n += 1
            for clause, detail, k in play(mod, c["hist"]):
                out.append({"clause": clause, "detail": detail, "prog": c["prog"], "selshare": c["selshare"], "gen": gen,
                            "hist": [[s["o"]["op"], s["o"]["pid"], s["o"]["cls"], s["o"]["arg"]] for s in c["hist"][:k + 1]]})
    return n, out


# ------------------------------------------------------------------ threads
def run_threads(cls, raws, order):
    """Two threads, each parsing then serialising ITS OWN packet; the get_fields() wrappers park a thread before every
    described field; `order` is the sequence of thread indices (0/1) to release, one field step each; afterwards both
    run to the end.  -> [(status, bytes)] per thread"""
    gates = [threading.Semaphore(0), threading.Semaphore(0)]
    arrived = [threading.Semaphore(0), threading.Semaphore(0)]
    done = [False, False]
    results = [None, None]
    tl = threading.local()

    def gate():
        i = getattr(tl, "idx", None)
        if i is None:
            return
        arrived[i].release()
        gates[i].acquire()
    lst = cls.get_fields()
    orig = list(lst)
    for j, (nm, f, pack, unpack) in enumerate(orig):
        def mk(pack=pack, unpack=unpack):
            def u(**k):
                gate()
                return unpack(**k)

            def p(**k):
                gate()
                return pack(**k)
            return p, u
        p_, u_ = mk()
        lst[j] = (nm, f, p_, u_)

    def body(i):
        tl.idx = i
        try:
            pkt = cls.unpack(raws[i])
            results[i] = ("ok", list(pkt.pack()))
        except Exception as ex:
            results[i] = ("error", type(ex).__name__)
        done[i] = True
        arrived[i].release()
    ths = [threading.Thread(target=body, args=(i,)) for i in (0, 1)]
    for t in ths:
        t.start()
    for i in (0, 1):
        arrived[i].acquire()      # both parked before their first field

    def step(i):
        if done[i]:
            return
        gates[i].release()
        arrived[i].acquire()
    try:
        for i in order:
            step(i)
        while not done[0]:
            step(0)
        while not done[1]:
            step(1)
        for t in ths:
            t.join()
    finally:
        lst[:] = orig
    return results


def thread_part(v, quick, seed):
    """(1) TLC: every interleaving of the two machines sharing the registers (MC_Threads, merged states);
    (2) TLC -simulate schedules with history forced on real threads at field boundaries;
    (3) every schedule 'k1 field steps of thread 0, k2 of thread 1, then the rest' enumerated by the harness."""
    from bind import declgen
    n = 0
    with declgen.Scratch() as sc:
        for prog in ("plain", "regex", "bits"):
            cfg = "SPECIFICATION Spec\nCONSTANTS Prog = \"%s\" KeepHist = %s\nINVARIANT Inv_C13_Threads\nINVARIANT Inv_C13_ThreadsPlain\n%s"
            res = run_tlc("MC_Threads", cfg_text=cfg % (prog, "FALSE", ""), workers=4)
            if res.violation:
                raise common.MachineryFailure("MC_Threads(%s) violates %s" % (prog, res.violation["name"]))
            v.add_tlc(res, "MC_Threads %s: every interleaving of two parse-then-serialise machines sharing the registers" % prog)
            sim = run_tlc("MC_Threads", cfg_text=cfg % (prog, "TRUE", "INVARIANT Emit\n"), workers=4, simulate=10 if quick else 100,
                          depth=120, seed=seed + 5, timeout=900)
            if sim.violation:
                raise common.MachineryFailure("MC_Threads(%s, simulate) violates %s" % (prog, sim.violation["name"]))
            v.add_tlc(sim, "MC_Threads %s -simulate with history (schedules exported)" % prog, exhaustive=False)
            if not sim.emits:
                raise common.MachineryFailure("MC_Threads emitted no schedule")
            decl = sim.emits[0]["decl"]
            raws = [bytes(r) for r in sim.emits[0]["raws"]]
            f2 = sim.emits[0]["f2"]
            cls = sc.load(decl, rp.GEN_OFF, nonce=("threads", prog)).C0
            nf = len(cls.get_fields())
            orders = []
            seen = set()
            for b in sim.emits:
                order = tuple(st["t"] - 1 for st in b["sched"] if st["k"] == "field")
                if order not in seen:
                    seen.add(order)
                    orders.append(("tlc", list(order), [tuple([("ok" if o["ok"] else "error"), o["out"]]) for o in b["outs"]]))
            for k1 in range(0, 2 * nf + 1, 1 if not quick else 2):
                for k2 in range(0, 2 * nf + 1, 1 if not quick else 2):
                    orders.append(("enum", [0] * k1 + [1] * k2, None))
            for src, order, spec_outs in orders:
                results = run_threads(cls, raws, order)
                n += 1
                v.count_case(("threads", prog, tuple(order)), nontrivial=len(set(order)) == 2)
                for i in (0, 1):
                    exp = ("ok", list(raws[i]))
                    got = (results[i][0], results[i][1])
                    if spec_outs is not None and not f2 and tuple(spec_outs[i]) != exp:
                        raise common.MachineryFailure("MC_Threads predicts %r for thread %d" % (spec_outs[i], i))
                    if got != exp:
                        detail = "thread %d parsed and re-serialised its own packet as %r instead of %r under the %s schedule %r" % (
                            i, got, exp, src, order)
                        if f2:
                            # the specification says which outcome the schedule gives; the code must give the same
                            if spec_outs is not None and (spec_outs[i][0], list(spec_outs[i][1])) != got:
                                v.violation("C13_Threads", detail + " (specification: %r)" % (spec_outs[i],), {"program": prog, "order": order})
                            else:
                                v.deviation("F2", "Inv_C13_Threads", detail, {"program": prog, "order": order})
                        else:
                            v.violation("C13_Threads", detail, {"program": prog, "order": order, "results": results})
    v.cov["thread_interleavings_executed"] = n
    v.cov["traces_validated_against_impl"] += n


# ---------------------------------------------------------------- a pack() issued while another packet is being serialised
def _has_packlen(x):
    return '"packlen"' in json.dumps(x)


class _Unsupported(Exception):
    pass


def _pure_len(prog, cls, base):
    """an expression of the declaration language that computes len(<base>.pack()) WITHOUT serialising anything, for a
    class made of integers, sized byte strings and references to such classes (no positioning, no delimiters)"""
    if prog[cls]["opts"]["align"]:
        raise _Unsupported(cls)
    total = {"e": "c", "v": 0}
    for f in prog[cls]["fields"]:
        if f.get("mv", {"kind": "none"})["kind"] != "none":
            raise _Unsupported(f["name"])
        if f["k"] == "Int":
            term = {"e": "c", "v": f["n"]}
        elif f["k"] == "Data" and f["size"]["m"] in ("const", "field", "expr"):
            term = {"e": "un", "op": "len", "a": {"e": "attr", "a": base, "n": f["name"]}}
        elif f["k"] == "Ref":
            term = _pure_len(prog, f["cls"], {"e": "attr", "a": base, "n": f["name"]})
        else:
            raise _Unsupported(f["k"])
        total = {"e": "bin", "op": "add", "l": total, "r": term}
    return total


def twin_prog(prog):
    """the same declaration with every len(<field>.pack()) replaced by the pure computation of that length"""
    def walk(x, cls):
        if isinstance(x, dict):
            if x.get("e") == "packlen":
                a = x["a"]
                if a.get("e") != "f":
                    raise _Unsupported("packlen of %r" % (a,))
                tgt = next(f for f in prog[cls]["fields"] if f["name"] == a["n"])
                if tgt["k"] != "Ref":
                    raise _Unsupported(tgt["k"])
                return _pure_len(prog, tgt["cls"], a)
            return {k: walk(val, cls) for k, val in x.items()}
        if isinstance(x, list):
            return [walk(y, cls) for y in x]
        return x
    return {c: {"opts": cd["opts"], "fields": walk(cd["fields"], c)} for c, cd in prog.items()}


def _np_run(job):
    """one case on the declaration and on its twin: the bytes (or the failure) of pack() must be the same whether the
    callable serialises the nested packet or computes the same number without serialising anything"""
    kind, prog, root, case, gen = job
    sc = _W["sc"]
    from bind import replay_values as rv
    out = []
    tw = twin_prog(prog)
    res = []
    for pr in (prog, tw):
        mod = sc.load(pr, gen)
        if kind == "parse":
            ro = rp.run_unpack(mod, root, case["raw"], case["start"], with_events=False)
            if ro["st"] != "done":
                res.append(("unpack-" + ro["st"], None))
                continue
            pkt = ro["pkt"]
        else:
            pkt = getattr(mod, root)(**rv.build_kwargs(mod, case["K"]))
        po = rp.run_pack(mod, pkt, with_events=False)
        res.append((po["st"], po.get("out")))
    if res[0] != res[1]:
        out.append({"clause": "C13_nested_pack", "gen": gen, "declaration": prog, "case": {k: case[k] for k in ("raw", "start", "K") if k in case},
                    "detail": "pack() gives %r when a callable serialises a nested packet on the way and %r when the same number is "
                              "computed without serialising (the inner pack() disturbed the outer one)" % (res[0], res[1])})
    return 1, out


def _np_chunk(jobs):
    n, out = 0, []
    for j in jobs:
        k, o = _np_run(j)
        n += k
        out.extend(o)
    return n, out


def nested_pack_part(v, quick, seed, vres):
    import random
    from lib import packetprofile as pp
    rnd = random.Random(seed + 11)
    jobs = []
    res = pp.run_mc(v, "U_C01_Reent", ["Inv_Machine"], label="MC_Packet U=U_C01_Reent (callables that serialise a nested packet: pack() re-entered)")
    by_d = {}
    for c in res.emits:
        if c["u"]["st"] == "done":
            by_d.setdefault(c["d"], []).append(c)
    for d, cs in sorted(by_d.items()):
        dd = res.univ[d - 1]
        for c in rnd.sample(cs, min(len(cs), 150 if quick else 1500)):
            for gen in (rp.GEN_OFF, None):
                jobs.append(("parse", dd["prog"], dd["root"], {"raw": c["raw"], "start": c["start"]}, gen))
    for c in vres.emits:
        dd = vres.univ[c["d"] - 1]
        if _has_packlen(dd["prog"]):
            for gen in (rp.GEN_OFF, None):
                jobs.append(("build", dd["prog"], dd["root"], {"K": c["K"]}, gen))
    chunks = [jobs[i:i + 100] for i in range(0, len(jobs), 100)]
    ctx = multiprocessing.get_context("fork")
    n = 0
    with ctx.Pool(14, initializer=_winit) as pool:
        for k, out in pool.imap_unordered(_np_chunk, chunks):
            n += k
            for b in out:
                if len(v.violations) < 50:
                    v.violation("C13_nested_pack", b["detail"], b)
    v.cov["traces_validated_against_impl"] += n
    v.cov["nested_pack_cases"] = n


def run(tier, seed):
    v = common.Verdict("C13", tier, seed)
    common.bind_repo()
    quick = tier == "quick"
    cases = []
    for prog, ops, live in (("plain", 4, 2), ("regex", 4, 2), ("selector", 3, 2), ("desc", 4, 2)):
        cfg = ("SPECIFICATION Spec\nCONSTANTS MaxOps = %d MaxLive = %d KeepHist = %s Prog = \"%s\"\nPROPERTY Prop_C13_Bystander\n"
               "PROPERTY Prop_C13_PackPure\n%s")
        res = run_tlc("MC_Session", cfg_text=cfg % (ops - 1 if quick else ops + 1, live if quick else 3, "FALSE", prog, ""), workers=8, timeout=3000)
        if res.violation:
            raise common.MachineryFailure("MC_Session(%s) violates %s:\n%s" % (prog, res.violation["name"], res.violation["trace_text"][-1500:]))
        v.add_tlc(res, "MC_Session %s: all histories of <= %d operations, <= %d live packets (merged)" % (prog, ops - 1 if quick else ops + 1, live if quick else 3))
        res2 = run_tlc("MC_Session", cfg_text=cfg % (3 if quick else 4, 2, "TRUE", prog, "INVARIANT Emit\n"), workers=8, timeout=3000)
        if res2.violation:
            raise common.MachineryFailure("MC_Session(%s, history) violates %s" % (prog, res2.violation["name"]))
        v.add_tlc(res2, "MC_Session %s with history: every maximal history of %d operations emitted" % (prog, 3 if quick else 4))
        cases.extend(res2.emits)
    for c in cases:
        v.count_case(json.dumps([c["prog"], [[s["o"]["op"], s["o"]["pid"], s["o"]["cls"], s["o"]["arg"]] for s in c["hist"]]]),
                     nontrivial=len({s["o"]["pid"] for s in c["hist"]}) >= 2)
    for c in cases[:: max(1, len(cases) // 3)][:3]:
        v.sample({"direction": "spec->code", "program": c["prog"], "history": [[s["o"]["op"], s["o"]["pid"], s["o"]["cls"]] for s in c["hist"]]})
    chunks = [cases[i:i + 100] for i in range(0, len(cases), 100)]
    ctx = multiprocessing.get_context("fork")
    n = 0
    bad = []
    with ctx.Pool(14, initializer=_winit) as pool:
        for k, out in pool.imap_unordered(_wrun, chunks):
            n += k
            bad.extend(out)
    v.cov["traces_validated_against_impl"] += n
    for b in bad:
        if b["clause"] == "dev_F2":
            v.deviation("F2", "Prop_C13_Bystander", b["detail"], {"history": b["hist"], "gen": b["gen"]})
        elif b["selshare"] and b["clause"] in ("C13_NoSharing", "C13_Bystander", "conf_touched"):
            v.deviation("F3", "Prop_C13_Bystander", b["detail"], {"history": b["hist"], "gen": b["gen"]})
        elif b["clause"] in ("C13_Bystander", "C13_NoSharing", "conf_touched", "conf_outcome", "harness_or_escape"):
            if len(v.violations) < 50:
                v.violation(b["clause"] if b["clause"].startswith("C13") else "C13_Bystander", b["detail"], b)
    # constructed packets: two constructions share no mutable object (defaults are deep copies, at every depth), and
    # pack() leaves what the attributes read as - described fields forced by the user included - and its own output alone
    from lib import valuesprofile as vp
    vres = vp.exhaustive_part(v, "U_C19", [], [rp.GEN_OFF, None], {"C13_shared_default", "C13_pack_pure"})
    nested_pack_part(v, quick, seed, vres)
    thread_part(v, quick, seed)
    v.cov["exhaustive"] = True
    v.cov["rule"] = ("TLC: all histories of <= 4 (5) operations over <= 2 (3) live packets for three programs (merged states, action "
                     "properties); every maximal history of 3 (4) operations executed on real objects x generic/generated code with the "
                     "values and pack() of ALL live packets and the sharing of mutable sub-objects compared after every operation; two "
                     "threads interleaved at every pair of field boundaries. non-trivial = at least two packets touched; distinct histories hashed.")
    v.assumptions = ["thread interleavings at field-step granularity (packets of different threads share only the field-object registers)"]
    return v.finish()
