"""C15 - a class behaves per its current declaration whatever the code cache holds (DESIGN.md 5.15).
CodeCache.tla, sequential fragment: successive definitions (one at a time) of same-named classes drawn from
{A, B, B' (same generated length as B), A under other options}, starting from EVERY cache content (absent, complete
module of any declaration, any torn prefix, bytecode absent / valid / stale-but-stamp-equal), bytecode caching on
or off; TLC checks that every definition installs its own code and that a cookie match implies identical code.
Real side: every sequence of definitions (incl. generation switched off and on again, pack-only generation,
changed options) is executed in real processes - a new process per definition or all in ONE process - on a real
cache directory, with all cache files forced into the same mtime second (so that stale bytecode is stamp-equal)
or not, from seeded initial contents; after each definition the class (and the classes defined earlier in the
process) is used on a discriminating input."""
import itertools
import json
import os
import random

from lib import common
from lib.tlcrun import run_tlc

CHOICES = [("A", "default"), ("B", "default"), ("Bp", "default"), ("A", "novec"), ("B", "off"), ("Bp", "packonly"),
           # the same fields written the same way, differing only in the hooks of their descriptor
           ("H", "default"), ("Hp", "default"),
           # fields without a struct code: generated code goes through the class's field list
           ("L", "default"), ("Lp", "default"),
           # symmetric width swaps (texts that differ only by characters trading places)
           ("P", "default"), ("Pp", "default"),
           # the same field lines with another value behind a named default; names differing only outside ASCII
           ("D", "default"), ("Dp", "default"), ("N", "default"), ("Np", "default")]
CORE = CHOICES[:6]
FAMILIES = [CHOICES[6:8], CHOICES[8:10], CHOICES[10:12], CHOICES[12:14], CHOICES[14:16]]


def mc_cfg(bytecode, procs):
    return ("SPECIFICATION Spec\nCONSTANTS Procs <- %s Decls <- MC_Decls4 SizeOf <- MC_SizeOf InitFiles <- MC_AllShapes\n"
            "CONSTANTS Repaired = TRUE BytecodeOn = %s MaxCrashes = 0 MaxSec = 1 Sequential = TRUE Order <- MC_Order\n"
            "INVARIANT Inv_C16_Safe\nINVARIANT Inv_C15_Reuse\nINVARIANT Inv_Publish\n" % (procs, "TRUE" if bytecode else "FALSE"))


def run_sequence(v, refs, sources, seq, bytecode, same_second, one_process, init):
    from bind import cache_harness as ch, cache_replay as cr
    w = ch.World(refs, bytecode)
    try:
        if init is not None:
            cr.seed(w, sources, init)

        def pin(child, ev):
            # every write to the cache lands in the same mtime second (stale bytecode becomes stamp-equal)
            if same_second and ev in ("replace", "close", "write") and os.path.exists(w.cache_path()):
                os.utime(w.cache_path(), (cr.T0, cr.T0))
        outs = []
        if one_process:
            c = w.child(seq[0][0], seq[0][1], more_defs=seq[1:])
            c.run_to_end(pin)
            outs = list(c.outcomes)
        else:
            for d, o in seq:
                c = w.child(d, o)
                c.run_to_end(pin)
                outs.append((d, c.outcome))
        return outs
    finally:
        w.close()


def run(tier, seed):
    v = common.Verdict("C15", tier, seed)
    common.bind_repo()
    from bind import cache_harness as ch, cache_replay as cr
    quick = tier == "quick"
    for bytecode in (True, False):
        res = run_tlc("MC_CodeCache", cfg_text=mc_cfg(bytecode, "MC_Procs" if quick else "MC_Procs3"), workers=8, timeout=3000)
        if res.violation:
            raise common.MachineryFailure("CodeCache (sequential) violates %s" % res.violation["name"])
        v.add_tlc(res, "MC_CodeCache sequential definitions (%d), every initial cache content, bytecode %s" % (2 if quick else 3, bytecode))
    refs = ch.reference_behaviours(common.REPO)
    sources = cr.Sources(refs)
    rnd = random.Random(seed)
    # all pairs of the core choices; within each family of look-alikes every ordered pair, and each member against A
    seqs = [list(s) for s in itertools.product(CORE, repeat=2)]
    for fam in FAMILIES:
        seqs += [list(s) for s in itertools.product(fam, repeat=2)] + [[CHOICES[0], x] for x in fam] + [[x, CHOICES[0]] for x in fam]
    if not quick:
        seqs = [list(s) for s in itertools.product(CHOICES, repeat=2)]
    triples = [list(s) for s in itertools.product(CHOICES, repeat=3)]
    rnd.shuffle(triples)
    seqs += triples[: (40 if quick else len(triples))]
    inits = [None]
    for o in ("A", "B", "Bp"):
        inits.append({"file": {"exists": True, "owner": o, "shape": "complete"}, "pyc": {"exists": False}})
        inits.append({"file": {"exists": True, "owner": o, "shape": "complete"}, "pyc": {"exists": True, "owner": "B" if o == "Bp" else "Bp"}})
    for sh in ("empty", "nocookie", "cookie_nofn", "broken"):
        inits.append({"file": {"exists": True, "owner": "B", "shape": sh}, "pyc": {"exists": False}})
    n = 0
    for seq in seqs:
        for bytecode in (True, False):
            for same_second in (True, False):
                for one_process in (True, False):
                    if quick and len(seq) == 3 and (not same_second or not bytecode):
                        continue
                    init = rnd.choice(inits)
                    outs = run_sequence(v, refs, sources, seq, bytecode, same_second, one_process, init)
                    n += 1
                    v.count_case((json.dumps(seq), bytecode, same_second, one_process, json.dumps(init)), nontrivial=True)
                    bad = [(d, o) for d, o in outs if o != "own"]
                    if bad or len(outs) != len(seq):
                        v.violation("Inv_C15_Own", "definitions %r (bytecode %s, %s, %s, initial cache %r) ended as %r" % (
                            seq, "on" if bytecode else "off", "same mtime second" if same_second else "real mtimes",
                            "one process" if one_process else "a new process each", init, outs),
                            {"sequence": seq, "bytecode": bytecode, "same_second": same_second, "one_process": one_process,
                             "init": init, "outcomes": outs})
                    elif len(v.cov["samples"]) < 3:
                        v.sample({"direction": "real processes", "definitions": seq, "bytecode": bytecode, "same_second": same_second,
                                  "one_process": one_process, "initial_cache": init, "outcomes": outs})
    # two processes taking turns: P defines D1; Q defines D2 (the cache file now holds D2); P defines D2 (served from the
    # disk) and then D1 again - whatever P remembers about files it has checked, every definition runs its own code
    for (d1, d2) in [("A", "B"), ("B", "Bp"), ("P", "Pp"), ("H", "Hp")] + ([] if quick else [("L", "Lp"), ("D", "Dp"), ("N", "Np"), ("Bp", "A")]):
        for bytecode in (True, False):
            w = ch.World(refs, bytecode)
            try:
                pchild = w.child(d1, "default", more_defs=[(d2, "default"), (d1, "default"), (d2, "default")])
                pchild.run_one_definition()
                qchild = w.child(d2, "default")
                qchild.run_to_end()
                pchild.run_to_end()
                outs = list(pchild.outcomes) + [(d2, qchild.outcome)]
            finally:
                w.close()
            n += 1
            v.count_case(("pingpong", d1, d2, bytecode), nontrivial=True)
            if [o for _, o in outs] != ["own"] * 5:
                v.violation("Inv_C15_Own", "process P defines %s, process Q defines %s, then P defines %s, %s, %s (bytecode %s): outcomes %r" % (
                    d1, d2, d2, d1, d2, "on" if bytecode else "off", outs), {"pair": [d1, d2], "bytecode": bytecode, "outcomes": outs})
    v.cov["traces_validated_against_impl"] += n
    v.cov["definition_sequences_executed"] = n
    # a cached module of ANOTHER declaration that appears while this definition is under way is never used either
    from props import C16
    C16.schedules(v, refs, True, clause="Inv_C15_Own", pairs=[("B", "Bp"), ("H", "Hp")] if quick else [("A", "B"), ("B", "Bp"), ("Bp", "A"), ("H", "Hp"), ("Hp", "H")])
    v.cov["exhaustive"] = True
    v.cov["rule"] = ("TLC: every sequential history of %d definitions over 4 declarations x every initial cache content x bytecode "
                     "on/off; real: all 100 pairs and %d triples of {A, B, B', A/novec, B/off, B'/pack-only, H, H' (same fields, other descriptor hooks), L, L' (loop-coded fields)} x bytecode x same/real mtime "
                     "second x one/new process, each from a seeded initial cache content; distinct cases hashed; all non-trivial."
                     % (2 if quick else 3, 40 if quick else 1000))
    v.assumptions = ["same-second stamps are forced with os.utime after every cache write"]
    return v.finish()
