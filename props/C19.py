"""C19 - default-constructed packets hold the declared defaults (DESIGN.md 5.19).
Values.tla defines DeclaredDefault per field kind and Construct(cls, K); MC_Values enumerates every subset of
fields overridden by keyword (kw = "subsets"); replay compares every attribute of Cls(**K), checks that two
constructions share no mutable object, and that pack() is the encoding of those values."""
import json

from lib import common, valuesprofile as vp
from bind import replay_packet as rp

OWNED = {"C19_Construct", "C19_Visible", "conf_construct", "conf_pack_outcome", "conf_out", "C13_shared_default", "C02_Layout", "ctor_error"}


def prototype_part(v, res):
    """The user keeps the packet INSTANCE handed to Ref(...) and changes it after the class statement, before anything was
    constructed: a default-constructed packet still holds what was declared (the class took its own copy when it was defined)."""
    from bind import declgen, observe
    n = 0
    with declgen.Scratch() as sc:
        for di, d in enumerate(res.univ):
            if not any(f["k"] == "Ref" and f.get("over") for f in d["prog"][d["root"]]["fields"]):
                continue
            spec_default = [c["V"] for c in res.emits if c["d"] == di + 1 and c["K"] == []]
            if not spec_default:
                continue
            for gi, gen in enumerate((rp.GEN_OFF, None)):
                mod = sc.load(d["prog"], gen, nonce=("proto", di, gi), local=True)
                for name in [x for x in dir(mod) if x.startswith("PROTO_")]:
                    proto = getattr(mod, name)
                    for fname, _f, _p, _u in type(proto).get_fields():
                        try:
                            setattr(proto, fname, 99)
                        except Exception:
                            pass
                obj = getattr(mod, d["root"])()
                got = observe.abs_packet(obj)["vals"]
                n += 1
                v.count_case(("proto", di, gi), nontrivial=True)
                if got != spec_default[0]:
                    v.violation("C19_Construct", "after the user changed the prototype instance they had passed to Ref(...), a default-constructed "
                                "packet holds %s, declared %s" % (json.dumps(got)[:300], json.dumps(spec_default[0])[:300]),
                                {"declaration": d["prog"], "gen": gen})
    v.cov["traces_validated_against_impl"] += n


def run(tier, seed):
    v = common.Verdict("C19", tier, seed)
    common.bind_repo()
    # (third way of writing the declaration: every class of the module is given ONE and the same options dictionary object)
    gens = [rp.GEN_OFF, None, {"share_opts": True, "vectorize": True}]
    res = vp.exhaustive_part(v, "U_C19", ["Inv_C02_Layout"], gens, OWNED)
    prototype_part(v, res)
    v.cov["exhaustive"] = True
    v.cov["rule"] = ("TLC enumerates U_C19 (every field kind and default form, nested prototypes with their own defaults and "
                     "overrides) x every subset of fields overridden by keyword x override values; replay on real classes; "
                     "non-trivial = at least two value-bearing fields; distinct by (declaration, K).")
    v.assumptions = ["override values drawn from the small domains of Values.tla"]
    return v.finish()
