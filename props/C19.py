"""C19 - default-constructed packets hold the declared defaults (DESIGN.md 5.19).
Values.tla defines DeclaredDefault per field kind and Construct(cls, K); MC_Values enumerates every subset of
fields overridden by keyword (kw = "subsets"); replay compares every attribute of Cls(**K), checks that two
constructions share no mutable object, and that pack() is the encoding of those values."""
from lib import common, valuesprofile as vp
from bind import replay_packet as rp

OWNED = {"C19_Construct", "C19_Visible", "conf_construct", "C13_shared_default", "C02_Layout", "ctor_error"}


def run(tier, seed):
    v = common.Verdict("C19", tier, seed)
    common.bind_repo()
    gens = [rp.GEN_OFF, None]
    vp.exhaustive_part(v, "U_C19", ["Inv_C02_Layout"], gens, OWNED)
    v.cov["exhaustive"] = True
    v.cov["rule"] = ("TLC enumerates U_C19 (every field kind and default form, nested prototypes with their own defaults and "
                     "overrides) x every subset of fields overridden by keyword x override values; replay on real classes; "
                     "non-trivial = at least two value-bearing fields; distinct by (declaration, K).")
    v.assumptions = ["override values drawn from the small domains of Values.tla"]
    return v.finish()
