"""Shared procedure of the value-driven checks (C02, C07 pack side, C19, pack failures of C12):
MC_Values (TLC, exhaustive over declarations x constructor keywords) -> replay on the real classes
(constructor and attribute assignment, generic and generated code) -> TLC (Trace_Values) evaluates the
specification's Construct / ConsistentPkt / Layout on every recorded execution that differs."""
import json
from concurrent.futures import ThreadPoolExecutor

from lib import common
from lib.tlcrun import run_tlc
from bind import replay_packet as rp, replay_values as rv

PY_CLAUSES = {"C13_shared_default", "C13_pack_pure", "C12.phase", "C12.pack_raises_only_PacketError", "conf_perr",
              "conf_pack_outcome", "conf_out", "conf_construct", "conf_outcome", "conf_values", "conf_pack2_outcome", "conf_out2",
              "conf_assert_consistency", "ctor_error", "C20_ChangeMakesUnequal", "C19_Visible", "C20_Pattern", "C02_PackSucceedsPos"}


def cfg(universe, invariants, part, nparts):
    lines = ["SPECIFICATION Spec", "CONSTANT UName = \"%s\"" % universe, "CONSTANTS Part = %d NParts = %d" % (part, nparts)]
    lines += ["INVARIANT " + i for i in invariants] + ["INVARIANT Emit"]
    return "\n".join(lines) + "\n"


def run_mc(v, universe, invariants, nparts=8, timeout=3000):
    with ThreadPoolExecutor(nparts) as ex:
        futs = [ex.submit(run_tlc, "MC_Values", cfg_text=cfg(universe, invariants, k, nparts), timeout=timeout,
                          workers=2, heap="3g") for k in range(nparts)]
        parts = [f.result() for f in futs]
    res = parts[0]
    for r in parts[1:]:
        res.violation = res.violation or r.violation
        res.generated += r.generated
        res.distinct += r.distinct
        res.emits.extend(r.emits)
        res.wall_s = max(res.wall_s, r.wall_s)
    res.cmd += "   (x%d processes)" % nparts
    if res.violation:
        raise common.MachineryFailure("MC_Values violates %s on its own model (universe %s):\n%s" % (
            res.violation["name"], universe, res.violation["trace_text"][-3000:]))
    if not res.emits:
        raise common.MachineryFailure("MC_Values emitted nothing for %s" % universe)
    v.add_tlc(res, "MC_Values U=%s" % universe)
    return res


def exhaustive_part(v, universe, invariants, gens, owned, max_judge=400, always_judge=0):
    res = run_mc(v, universe, invariants)
    n, mism = rv.replay_all(res.univ, res.emits, gens, sample_ok=always_judge)
    v.cov["traces_validated_against_impl"] += n
    for c in res.emits:
        v.count_case((universe, c["d"], json.dumps(c["K"]), json.dumps(c["mod"])), nontrivial=len(c["V"]) >= 2)
    for c in res.emits[:: max(1, len(res.emits) // 3)][:3]:
        v.sample({"direction": "spec->code", "universe": universe, "declaration": res.univ[c["d"] - 1]["prog"], "K": c["K"],
                  "constructed": c["V"], "consistent": c["consistent"], "spec_pack": c["p"]["st"], "spec_bytes": c["p"]["out"]})
    harness = [m for m in mism if "harness" in m["clauses"]]
    if harness:
        raise common.MachineryFailure("replay harness exception: " + harness[0]["detail"])
    v.cov["executions_differing_from_spec"] = v.cov.get("executions_differing_from_spec", 0) + len(mism)
    mism.sort(key=lambda m: 0 if any(c in owned for c in m["clauses"]) else 1)
    todo = common.spread2([m for m in mism if "ctor_error" not in m["clauses"]], lambda m: tuple(sorted(m["clauses"])),
                          lambda m: (m["d"], json.dumps(m["gen"]), m.get("how")), max_judge)
    names_list = []
    if todo:
        tres, out = rv.judge([m["obs"] for m in todo])
        v.add_tlc(tres, "Trace_Values on %d recorded executions differing from the specification (%s)" % (len(todo), universe), exhaustive=False)
        for m, names in zip(todo, out):
            if names is None:
                raise common.MachineryFailure("Trace_Values gave no verdict for a record")
            names_list.append((m, set(names) | {c for c in m["clauses"] if c in PY_CLAUSES}))
    for m in mism:
        if "ctor_error" in m["clauses"]:
            if "ctor_error" not in owned:
                raise common.MachineryFailure("constructing / projecting a packet raised in the harness: %s (K=%s)" % (
                    m["obs"].get("ctor_error"), json.dumps(m["obs"]["K"])[:300]))
            names_list.append((m, {"ctor_error"}))
    drift = {}
    for m, names in names_list:
        mine = sorted(n for n in names if n in owned)
        if mine:
            o = m["obs"]
            v.violation(mine[0], "clauses failing on the recorded execution: %s (all: %s)" % (mine, sorted(names)),
                        {"declaration": o["prog"], "K": o["K"], "mod": o["mod"], "how": m.get("how"), "gen": m["gen"],
                         "constructed": o.get("cv"), "pack": o.get("cp"), "reparse": o.get("cu"), "pack2": o.get("cp2"),
                         "ctor_error": o.get("ctor_error")})
        else:
            for n in names:
                drift[n] = drift.get(n, 0) + 1
    if drift:
        v.cov.setdefault("model_drift_not_owned", {}).update(drift)
    return res
