"""./check selftest - demonstrates that the specification is bound to the code (not part of any verdict):
 (i)  an accepted recorded trace with ONE field corrupted must be rejected by TLC;
 (ii) the same trace with one event dropped must be rejected;
 (iii) the pinned (unrepaired) cache protocol must violate Inv_C16_Safe in CodeCache.tla;
 (iv) executions of generated code recorded from the real classes are accepted by the block-step machine of their
      setting (Trace_Gen) and rejected when one slice of the read log is split as the field loop would take it, when the
      block's error entry is renamed after its member, or when the recording is judged under the wrong setting."""
import copy
import json
import os
import tempfile

from lib import common
from lib.tlcrun import run_tlc


def _judge_fragments(traces):
    d = tempfile.mkdtemp(prefix="selftest_")
    path = os.path.join(d, "t.json")
    with open(path, "w") as fh:
        json.dump(traces, fh)
    try:
        res = run_tlc("Trace_Fragments", workers=1, env={"TRACE_FILE": path})
    finally:
        os.remove(path)
        os.rmdir(d)
    return res


def _gen_part():
    from bind import declgen, trace_packet as tp
    I = lambda n, w: {"k": "Int", "name": n, "n": w, "signed": False, "endian": "default", "dflt": 0,
                      "mv": {"kind": "none"}, "desc": {"kind": "none"}}
    prog = {"C0": {"opts": {"sbl": -1, "endian": "none", "align": 0}, "fields": [I("a", 1), I("b", 2), I("c", 1)]}}
    d = {"prog": prog, "root": "C0"}
    gen = {"generate_for_pack": True, "generate_for_unpack": True, "vectorize": True, "annotate": False}
    recs = []
    with declgen.Scratch() as sc:
        mod = sc.load(prog, gen)
        for raw in ([1, 2, 3, 4], [1, 2, 3], [9, 9, 9, 9, 9]):
            rec, _ = tp.record(mod, d, raw, 0, gen, c01=False)
            recs.append(rec)
    res, out = tp.judge(recs, module="Trace_Gen", workers=1)
    acc = all(out.get(i) == [] for i in range(len(recs)))
    print("selftest: %d recorded executions of generated code accepted by the block-step machine: %s" % (len(recs), acc))
    bad1 = copy.deepcopy(recs[0])       # the one slice of the block split the way the field loop reads
    bad1["cu"]["reads"] = [{"lo": 0, "hi": 1, "want": 1, "window": False}, {"lo": 1, "hi": 3, "want": 2, "window": False},
                           {"lo": 3, "hi": 4, "want": 1, "window": False}]
    bad2 = copy.deepcopy(recs[1])       # the failing block named after one member
    bad2["cu"]["err"][0]["name"] = "c"
    bad3 = copy.deepcopy(recs[1])       # judged as if the field loop had run
    bad3["generic"] = True
    res, out = tp.judge([bad1, bad2, bad3], module="Trace_Gen", workers=1)
    rej = "gen_reads" in (out.get(0) or []) and "gen_err" in (out.get(1) or []) and bool(out.get(2))
    print("selftest: split read log / renamed block entry / wrong setting -> rejected: %s (%s)" % (rej, [out.get(i) for i in range(3)]))
    return acc and rej


def main():
    common.bind_repo()
    from props import C11
    ok = True
    traces = [t for t in C11.record_random_traces(7, 40, 8, 24, 5) if len(t) >= 3 and all(e["out"] is not None for e in t)][:10]
    res = _judge_fragments(traces)
    acc = len(res.accepts) == len(traces) and res.violation is None
    print("selftest: %d recorded Fragments traces accepted: %s" % (len(traces), acc))
    ok &= acc
    # (i) corrupt one logged field
    bad = copy.deepcopy(traces)
    for t in bad:
        t[1]["cur"] += 1
    res = _judge_fragments(bad)
    rej = res.violation is not None or len(res.accepts) == 0
    print("selftest: cursor of the 2nd event corrupted in every trace -> all rejected: %s" % rej)
    ok &= rej
    # (ii) drop one event
    bad = copy.deepcopy(traces)
    kept = []
    for t in bad:
        idx = next((i for i, e in enumerate(t[:-1]) if e["op"] != "setcur" and not e["raised"] and len(e["s"]) > 0), None)
        if idx is not None:
            del t[idx]
            kept.append(t)
    res = _judge_fragments(kept)
    rej = res.violation is not None or len(res.accepts) < len(kept)
    print("selftest: one successful insert dropped from %d traces -> rejected: %s (accepted %d)" % (len(kept), rej, len(res.accepts)))
    ok &= rej
    # (iii) the pinned cache protocol in the model
    from props import C16
    asis = run_tlc("MC_CodeCache", cfg_text=C16.mc_cfg(False, True, 1), workers=4, timeout=600)
    v = asis.violation is not None and asis.violation["name"] == "Inv_C16_Safe"
    print("selftest: pinned cache protocol (Repaired = FALSE) violates Inv_C16_Safe in the model: %s" % v)
    ok &= v
    ok &= _gen_part()
    print("selftest %s" % ("passed" if ok else "FAILED"))
    return 0 if ok else 2
