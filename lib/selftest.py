"""./check selftest - demonstrates that the specification is bound to the code (not part of any verdict):
 (i)  an accepted recorded trace with ONE field corrupted must be rejected by TLC;
 (ii) the same trace with one event dropped must be rejected;
 (iii) the pinned (unrepaired) cache protocol must violate Inv_C16_Safe in CodeCache.tla."""
import copy
import json
import os
import tempfile

from lib import common
from lib.tlcrun import run_tlc


def _judge_fragments(traces):
    d = tempfile.mkdtemp(prefix="selftest_")
    path = os.path.join(d, "t.json")
    with open(path, "w") as fh:
        json.dump(traces, fh)
    try:
        res = run_tlc("Trace_Fragments", workers=1, env={"TRACE_FILE": path})
    finally:
        os.remove(path)
        os.rmdir(d)
    return res


def main():
    common.bind_repo()
    from props import C11
    ok = True
    traces = [t for t in C11.record_random_traces(7, 40, 8, 24, 5) if len(t) >= 3 and all(e["out"] is not None for e in t)][:10]
    res = _judge_fragments(traces)
    acc = len(res.accepts) == len(traces) and res.violation is None
    print("selftest: %d recorded Fragments traces accepted: %s" % (len(traces), acc))
    ok &= acc
    # (i) corrupt one logged field
    bad = copy.deepcopy(traces)
    for t in bad:
        t[1]["cur"] += 1
    res = _judge_fragments(bad)
    rej = res.violation is not None or len(res.accepts) == 0
    print("selftest: cursor of the 2nd event corrupted in every trace -> all rejected: %s" % rej)
    ok &= rej
    # (ii) drop one event
    bad = copy.deepcopy(traces)
    kept = []
    for t in bad:
        idx = next((i for i, e in enumerate(t[:-1]) if e["op"] != "setcur" and not e["raised"] and len(e["s"]) > 0), None)
        if idx is not None:
            del t[idx]
            kept.append(t)
    res = _judge_fragments(kept)
    rej = res.violation is not None or len(res.accepts) < len(kept)
    print("selftest: one successful insert dropped from %d traces -> rejected: %s (accepted %d)" % (len(kept), rej, len(res.accepts)))
    ok &= rej
    # (iii) the pinned cache protocol in the model
    from props import C16
    asis = run_tlc("MC_CodeCache", cfg_text=C16.mc_cfg(False, True, 1), workers=4, timeout=600)
    v = asis.violation is not None and asis.violation["name"] == "Inv_C16_Safe"
    print("selftest: pinned cache protocol (Repaired = FALSE) violates Inv_C16_Safe in the model: %s" % v)
    ok &= v
    print("selftest %s" % ("passed" if ok else "FAILED"))
    return 0 if ok else 2
