"""Shared plumbing of the property checks: repo binding, evidence files, known findings,
verdict printing.  Exit codes: 0 held / 1 VIOLATION / 2 machinery failure."""
import hashlib
import json
import os
import sys
import time

VERIF = os.path.dirname(os.path.dirname(os.path.abspath(__file__)))
REPO = os.environ.get("VERIF_REPO", "/repo")
EVIDENCE_DIR = os.environ.get("VERIF_EVIDENCE_DIR") or os.path.join(VERIF, "evidence")
REPLAY_DIR = os.environ.get("VERIF_REPLAY_DIR") or os.path.join(VERIF, "replays")
FINDINGS_FILE = os.path.join(VERIF, "known_findings.json")
GUARD = "BISTURI_VERIF"


def bind_repo():
    """Make `import bisturi` resolve to /repo's current working tree (checked)."""
    os.environ[GUARD] = "1"
    sys.dont_write_bytecode = True
    if REPO not in sys.path:
        sys.path.insert(0, REPO)
    for m in list(sys.modules):
        if m == "bisturi" or m.startswith("bisturi."):
            if not getattr(sys.modules[m], "__file__", "").startswith(REPO):
                del sys.modules[m]
    import bisturi
    assert os.path.realpath(bisturi.__file__).startswith(os.path.realpath(REPO)), bisturi.__file__
    return bisturi


class MachineryFailure(Exception):
    pass


def load_findings():
    with open(FINDINGS_FILE) as fh:
        data = json.load(fh)
    return data.get("findings", [])


class Verdict:
    """Collects what one check run saw; prints the interface lines; writes evidence."""

    def __init__(self, prop, tier, seed, level="model_checking"):
        self.prop = prop
        self.tier = tier
        self.seed = seed
        self.level = level
        self.t0 = time.time()
        self.violations = []       # dicts: clause, detail, case
        self.known_seen = {}       # finding id -> count
        self.known_first = {}      # finding id -> first case
        self.cov = {"states": 0, "transitions": 0, "traces_validated_against_impl": 0,
                    "evaluations": 0, "distinct_nontrivial": 0, "samples": [],
                    "rule": "", "exhaustive": False, "tlc_runs": [], "coverage_actions": {}}
        self.assumptions = []
        self._distinct = set()
        self.findings = [f for f in load_findings() if f.get("property") == prop
                         and f.get("status", "open") == "open"]

    # ---- bookkeeping
    def add_tlc(self, res, label, exhaustive=True):
        self.cov["states"] += res.distinct
        self.cov["transitions"] += res.generated
        self.cov["tlc_runs"].append({"label": label, "cmd": res.cmd, "distinct_states": res.distinct,
                                     "states_generated": res.generated, "depth": res.depth,
                                     "wall_s": round(res.wall_s, 2), "exhaustive": exhaustive})
        for k, (d, g) in res.coverage.items():
            od, og = self.cov["coverage_actions"].get(k, (0, 0))
            self.cov["coverage_actions"][k] = (od + d, og + g)

    def count_case(self, case_key, nontrivial=True, n=1):
        self.cov["evaluations"] += n
        if nontrivial:
            h = hashlib.blake2b(repr(case_key).encode(), digest_size=8).digest()
            self._distinct.add(h)

    def sample(self, obj, cap=6):
        if len(self.cov["samples"]) < cap:
            self.cov["samples"].append(obj)

    def violation(self, clause, detail, case):
        self.violations.append({"clause": clause, "detail": detail, "case": case})

    def known(self, fid, case):
        self.known_seen[fid] = self.known_seen.get(fid, 0) + 1
        self.known_first.setdefault(fid, case)

    def match_finding(self, tag):
        """A deviation tag computed by the model (e.g. 'F5a') is a known finding iff listed."""
        for f in self.findings:
            if f["id"] == tag:
                return f
        return None

    def deviation(self, tag, clause, detail, case):
        """The code exhibited the named deviation `tag`: known finding if listed, else violation."""
        f = self.match_finding(tag)
        if f is not None:
            self.known(f["id"], case)
        else:
            self.violation(clause, "deviation %s is not a listed finding: %s" % (tag, detail), case)

    # ---- output
    def finish(self):
        wall = time.time() - self.t0
        self.cov["distinct_nontrivial"] = len(self._distinct)
        os.makedirs(EVIDENCE_DIR, exist_ok=True)
        replay_path = None
        if self.violations:
            os.makedirs(REPLAY_DIR, exist_ok=True)
            replay_path = os.path.join(REPLAY_DIR, "%s_%s_%d.json" % (self.prop, self.tier, self.seed))
            with open(replay_path, "w") as fh:
                json.dump({"property": self.prop, "violations": self.violations[:50]}, fh, indent=1,
                          default=_js)
        cov = dict(self.cov)
        cov["coverage_actions"] = {k: list(v) for k, v in cov["coverage_actions"].items()}
        cov["known_findings_seen"] = self.known_seen
        cov["violation_clauses"] = sorted({v["clause"] for v in self.violations})
        if not cov["samples"]:
            cov["samples"] = ["(no case reached the sampling point)"]
        ev = {"property_id": self.prop, "tier": self.tier, "seed": self.seed, "level": self.level,
              "coverage": cov, "assumptions": self.assumptions, "wall_s": round(wall, 2),
              "violations": len(self.violations)}
        with open(os.path.join(EVIDENCE_DIR, "%s.json" % self.prop), "w") as fh:
            json.dump(ev, fh, indent=1, default=_js)
        for fid, cnt in sorted(self.known_seen.items()):
            f = self.match_finding(fid)
            print("KNOWN-FINDING: property=%s %s: %s (seen %d times this run; first: %s)" % (
                self.prop, fid, f["what"] if f else "", cnt,
                json.dumps(self.known_first[fid], default=_js)[:300]))
        if self.violations:
            v = self.violations[0]
            print("failing clause: %s -- %s" % (v["clause"], v["detail"]))
            print("VIOLATION property=%s replay=%s" % (self.prop, replay_path))
            return 1
        print("OK property=%s tier=%s states=%d transitions=%d impl_traces=%d wall=%.1fs" % (
            self.prop, self.tier, cov["states"], cov["transitions"],
            cov["traces_validated_against_impl"], wall))
        return 0


def _js(o):
    if isinstance(o, (bytes, bytearray)):
        return list(o)
    if isinstance(o, (set, frozenset)):
        return sorted(o)
    if isinstance(o, tuple):
        return list(o)
    return repr(o)


def spread2(items, key1, key2, limit):
    """Two-level round-robin: every kind (key1, e.g. the set of differing clauses) gets the same share of `limit`, and
    inside a kind every sub-kind (key2, e.g. declaration and code-generation setting) gets the same share."""
    kinds = {}
    for it in items:
        kinds.setdefault(key1(it), []).append(it)
    per = {k: spread(v, key2, len(v)) for k, v in kinds.items()}      # each kind ordered round-robin over its sub-kinds
    out = []
    order = sorted(per, key=repr)
    i = 0
    while len(out) < limit and order:
        nxt = []
        for k in order:
            if i < len(per[k]):
                out.append(per[k][i])
                if len(out) >= limit:
                    break
                nxt.append(k)
        order = nxt
        i += 1
    return out


def spread(items, key, limit):
    """At most `limit` of `items`, taken round-robin over the groups given by `key` (so that one numerous kind of
    difference - a known deviation, say - cannot crowd every other kind out of what is judged)."""
    groups = {}
    for it in items:
        groups.setdefault(key(it), []).append(it)
    out = []
    lists = [groups[k] for k in sorted(groups, key=repr)]
    i = 0
    while len(out) < limit and lists:
        nxt = []
        for g in lists:
            if i < len(g):
                out.append(g[i])
                if len(out) >= limit:
                    break
                nxt.append(g)
        lists = nxt
        i += 1
    return out
