"""Shared procedure of the packet-level property checks (C01 C04 C06 C07 C08 C10 C12 C14 ...):

  1. TLC, exhaustive: MC_Packet over the profile's universe of declarations x all inputs x
     start offsets; the profile's invariants (PacketProps) must hold on the model.
  2. spec -> code: every terminal behaviour TLC emitted is executed on classes built by /repo's
     bisturi (under the chosen code-generation settings) and compared observable by observable.
  3. every case whose execution differs from the specification anywhere is recorded and handed
     back to TLC (Trace_Packet): conformance clauses + the property predicates evaluated on the
     RECORDED observations.  A property is violated by a case iff one of the clauses it owns
     fails there; differences in clauses it does not own are model drift for this property
     (reported in the evidence, not an alarm).
  4. code -> spec: seeded random declarations / inputs beyond the exhaustive bounds are run on
     the real code, recorded, and judged by the same Trace_Packet run.
"""
import collections
import json
import random

from lib import common
from lib.tlcrun import run_tlc
from bind import replay_packet as rp

ALL_INVARIANTS = ["Inv_Machine", "Inv_C04_Exact", "Inv_C01_Bytes", "Inv_C01_Fill", "Inv_C01_Len",
                  "Inv_C01_OverlapRaises", "Inv_C01_RaiseOnlyOnOverlap", "Inv_C10_Same", "Inv_C10_Least",
                  "Inv_C12_Shape"]

# clauses produced on the Python side that have no TLC counterpart
PY_ONLY = {"C12.unpack_raises_only_PacketError", "C12.pack_raises_only_PacketError", "C12.str_total", "C12.phase"}


def mc_cfg(universe, invariants, lenbonus=0, emit=True, part=0, nparts=1):
    lines = ["SPECIFICATION Spec", "CONSTANT UName = \"%s\"" % universe, "CONSTANTS Part = %d NParts = %d" % (part, nparts)]
    if lenbonus:
        lines.append("CONSTANT LenBonus <- LB%d" % lenbonus)
    for i in invariants:
        lines.append("INVARIANT " + i)
    if emit:
        lines.append("INVARIANT Emit")
    return "\n".join(lines) + "\n"


def case_key(c):
    return (c["d"], tuple(c["raw"]), c["start"])


def run_mc_waves(v, universe, invariants, lenbonus=0, label=None, timeout=6000, nparts=8, width=8, emit=True):
    """TLC over the universe, split over `nparts` TLC processes by declaration index (a forest of tiny trees over
    large state values scales badly over TLC worker threads, well over processes), `width` of them at a time.
    Yields one merged TLCResult per wave, so that the exported behaviours of a large profile never sit in
    memory all at once."""
    from concurrent.futures import ThreadPoolExecutor
    univ = None
    total = None
    for w0 in range(0, nparts, width):
        ks = list(range(w0, min(nparts, w0 + width)))
        with ThreadPoolExecutor(len(ks)) as ex:
            futs = [ex.submit(run_tlc, "MC_Packet", cfg_text=mc_cfg(universe, invariants, lenbonus, emit, k, nparts),
                              timeout=timeout, workers=2, heap="3g") for k in ks]
            parts = [f.result() for f in futs]
        res = parts[0]
        for r in parts[1:]:
            if r.violation and not res.violation:
                res.violation = r.violation
            res.generated += r.generated
            res.distinct += r.distinct
            res.emits.extend(r.emits)
            res.wall_s = max(res.wall_s, r.wall_s)
            res.depth = max(res.depth, r.depth)
            res.univ = res.univ or r.univ
        res.cmd += "   (processes Part=%d..%d of %d)" % (ks[0], ks[-1], nparts)
        if res.violation:
            raise common.MachineryFailure("the specification violates %s on its own model (universe %s):\n%s" % (
                res.violation["name"], universe, res.violation["trace_text"][-3000:]))
        univ = univ or res.univ
        res.univ = univ
        if univ is None:
            raise common.MachineryFailure("profile %s: the universe was not exported" % universe)
        v.add_tlc(res, (label or ("MC_Packet U=%s LenBonus=%d" % (universe, lenbonus))) + " [wave %d/%d]" % (w0 // width + 1, (nparts + width - 1) // width))
        yield res


def run_mc(v, universe, invariants, lenbonus=0, label=None, timeout=3000, nparts=8):
    res = None
    for r in run_mc_waves(v, universe, invariants, lenbonus, label, timeout, nparts, nparts):
        res = r
    if not res.emits:
        raise common.MachineryFailure("profile %s emitted no behaviour" % universe)
    return res


def judge_cases(v, univ, cases, gens, owned, label, c01=True, extra_records=None):
    """Record the given (d, raw, start) cases under every gen and let TLC judge them.
    Returns list of (record, failed names)."""
    from bind import declgen, trace_packet as tp
    recs = []
    meta = []
    with declgen.Scratch() as sc:
        for c in cases:
            d = univ[c["d"] - 1]
            for gen in gens:
                mod = sc.load(d["prog"], gen)
                rec, extra = tp.record(mod, d, c["raw"], c["start"], gen, c01=c01)
                recs.append(rec)
                meta.append({"d": c["d"], "gen": gen, "extra": extra})
    if extra_records:
        for rec, m in extra_records:
            recs.append(rec)
            meta.append(m)
    if not recs:
        return []
    res, out = tp.judge(recs)
    v.add_tlc(res, label, exhaustive=False)
    result = []
    for i, rec in enumerate(recs):
        names = out.get(i)
        if names is None:
            import os
            os.makedirs(common.REPLAY_DIR, exist_ok=True)
            pth = os.path.join(common.REPLAY_DIR, "noverdict_%s.json" % v.prop)
            with open(pth, "w") as fh:
                json.dump(rec, fh)
            raise common.MachineryFailure("Trace_Packet gave no verdict for record %d (saved to %s)" % (i, pth))
        names = set(names)
        for k in meta[i]["extra"]:
            if k.endswith("_escape"):
                names.add("C12." + k.replace("_escape", "_raises_only_PacketError"))
            if k.endswith("_str_error"):
                names.add("C12.str_total")
            if k == "silent_error":
                names.add("C12.silent")
            if k == "notbytes_error":
                names.add("C12.not_bytes")
        result.append((rec, meta[i], names))
    return result


def small(rec):
    return {"prog": rec["prog"], "root": rec["root"], "raw": rec["raw"], "start": rec["start"]}


# named deviations the specification computes on a recorded execution: the clause whose owner
# reports them as a known finding, the finding id, and what is said
DEVIATIONS = {
    "dev_F5": ("C01_RaiseOnlyOnOverlap", "F5p", "pack refused an insert that touches no occupied byte"),
    "dev_F10b": ("C14_Lockstep", "F10b", "a relative move went in front of the start offset"),
}


def decide(v, judged, owned):
    """Apply the ownership rule to judged records."""
    drift = collections.Counter()
    for rec, meta, names in judged:
        names = set(names)
        mine = sorted(n for n in names if n in owned)
        for dev, (owner, fid, what) in DEVIATIONS.items():
            if dev in names:
                names.discard(dev)
                if owner in owned and not mine:
                    v.deviation(fid, owner, what, {"case": small(rec), "gen": meta["gen"]})
        if mine:
            v.violation(mine[0], "clauses failing on the recorded execution: %s (all: %s)" % (mine, sorted(names)),
                        {"case": small(rec), "gen": meta["gen"], "cu": rec["cu"], "cp": rec["cp"], "extra": meta["extra"]})
        else:
            for n in names:
                drift[n] += 1
        v.cov["traces_validated_against_impl"] += 1
    for n, c in drift.items():
        v.cov.setdefault("model_drift_not_owned", {})
        v.cov["model_drift_not_owned"][n] = v.cov["model_drift_not_owned"].get(n, 0) + c


def exhaustive_part(v, universe, invariants, gens, owned, lenbonus=0, opts=None, c01=True, max_judge=600, nparts=8):
    total_emits = 0
    last = None
    for res in run_mc_waves(v, universe, invariants, lenbonus, nparts=nparts):
        last = res
        univ = res.univ
        total_emits += len(res.emits)
        n, mism = rp.replay_all(univ, res.emits, gens, dict(opts or {}, c01=c01))
        v.cov["traces_validated_against_impl"] += n
        v.cov["replay_runs"] = v.cov.get("replay_runs", 0) + n
        for c in res.emits:
            nontriv = len(c["u"]["evs"]) >= 2 or len(c["u"]["reads"]) >= 2
            v.count_case((universe, c["d"], tuple(c["raw"]), c["start"]), nontrivial=nontriv)
        for c in res.emits[:: max(1, len(res.emits) // 3)][:3]:
            v.sample({"direction": "spec->code", "universe": universe, "declaration": univ[c["d"] - 1]["prog"],
                      "raw": c["raw"], "start": c["start"], "spec_unpack": c["u"]["st"],
                      "spec_values": c["u"]["result"], "spec_pack": c["p"].get("out")})
        res.emits = []
        harness = [m for m in mism if "harness" in m["clauses"]]
        if harness:
            raise common.MachineryFailure("replay harness exception: " + harness[0]["detail"])
        # executions differing from the specification -> TLC judges the RECORDED observations
        v.cov["executions_differing_from_spec"] = v.cov.get("executions_differing_from_spec", 0) + len(mism)
        mism.sort(key=lambda m: 0 if any(c in owned for c in m["clauses"]) else 1)
        todo = common.spread2(mism, lambda m: tuple(sorted(m["clauses"])), lambda m: (m["d"], json.dumps(m["gen"])), max_judge)
        if todo:
            extra = [(m["rec"], {"d": m["d"], "gen": m["gen"], "extra": m["extra"]}) for m in todo]
            judged = judge_cases(v, univ, [], gens, owned,
                                 "Trace_Packet on %d recorded executions differing from the specification (%s)" % (len(todo), universe),
                                 c01=c01, extra_records=extra)
            decide(v, judged, owned)
        if len(v.violations) >= 50:
            break
    if total_emits == 0:
        raise common.MachineryFailure("profile %s emitted no behaviour" % universe)
    return last


def random_part(v, seed, n, gens, owned, profile, c01=True):
    """code -> spec with seeded random declarations of the profile's shape."""
    from bind import randdecl, declgen, trace_packet as tp
    rnd = random.Random(seed)
    recs = []
    with declgen.Scratch() as sc:
        tries = 0
        while len(recs) < n and tries < n * 4:
            tries += 1
            d = randdecl.gen_decl(rnd, profile)
            try:
                mods = [sc.load(d["prog"], g) for g in gens]
            except RuntimeError:
                continue    # declaration the library refuses to define (outside the language)
            for raw, start in randdecl.gen_inputs(rnd, d, mods[0], k=6):
                for g, mod in zip(gens, mods):
                    rec, extra = tp.record(mod, d, raw, start, g, c01=c01 and randdecl.c01_ok(d))
                    recs.append((rec, {"d": None, "gen": g, "extra": extra}))
                if len(recs) >= n:
                    break
    judged = judge_cases(v, None, [], gens, owned, "Trace_Packet on %d recorded executions of random declarations (%s)" % (len(recs), profile),
                         extra_records=recs)
    decide(v, judged, owned)
    for rec, meta, names in judged:
        v.count_case(("rand", json.dumps(rec["prog"], sort_keys=True), tuple(rec["raw"]), rec["start"]),
                     nontrivial=len(rec["cu"]["reads"]) >= 2)
    for rec, meta, names in judged[:2]:
        v.sample({"direction": "code->spec", "declaration": rec["prog"], "raw": rec["raw"], "start": rec["start"],
                  "code_unpack": rec["cu"]["st"], "code_values": rec["cu"]["result"], "failed_clauses": sorted(names)})
    return len(recs)
