"""Thin wrapper around TLC: run a model from /verif/spec, parse the output.

Nothing here knows about bisturi.  A TLC run yields
  - generated / distinct state counts,
  - the PrintT records our specs emit (<<"EMIT", json>>, <<"ACCEPT", tid>>, <<"NOTE", ..>>),
  - the first violated invariant / property with TLC's counterexample text,
  - per-action coverage counts when requested.
"""
import json
import os
import re
import shutil
import subprocess
import tempfile
import time

SPEC_DIR = os.path.join(os.path.dirname(os.path.dirname(os.path.abspath(__file__))), "spec")
JAR = "/opt/veriftools/tla/tla2tools.jar:/opt/veriftools/tla/CommunityModules-deps.jar"


class TLCError(Exception):
    """Machinery failure (exit 2): TLC crashed, could not parse, timed out."""


class TLCResult:
    def __init__(self):
        self.generated = 0
        self.distinct = 0
        self.depth = 0
        self.emits = []       # parsed JSON payloads of <<"EMIT", "...">>
        self.accepts = set()  # ids of <<"ACCEPT", id>>
        self.notes = []       # other tagged tuples, raw text
        self.violation = None  # dict(kind, name, trace_text)
        self.coverage = {}    # action name -> (distinct, generated)
        self.stdout = ""
        self.wall_s = 0.0
        self.cmd = ""
        self.finished = False
        self.univ = None
        self.res = {}

    def ok(self):
        return self.violation is None


_EMIT_RE = re.compile(r'^<<"EMIT", "(.*)">>$')
_ACCEPT_RE = re.compile(r'^<<"ACCEPT", (\d+)>>$')
_NOTE_RE = re.compile(r'^<<"NOTE", (.*)>>$')
_UNIV_RE = re.compile(r'^<<"UNIV", "(.*)">>$')
_RES_RE = re.compile(r'^<<"RES", (\d+), <<(.*)>>>>$')


def _unescape_tla_string(s):
    # TLC prints strings with \" and \\ escapes (and \n, \t as two chars)
    out = []
    i = 0
    n = len(s)
    while i < n:
        c = s[i]
        if c == "\\" and i + 1 < n:
            d = s[i + 1]
            if d == "n":
                out.append("\n")
            elif d == "t":
                out.append("\t")
            elif d == "r":
                out.append("\r")
            elif d == "f":
                out.append("\f")
            else:
                out.append(d)
            i += 2
        else:
            out.append(c)
            i += 1
    return "".join(out)


def run_tlc(module, cfg=None, workers=16, env=None, timeout=3600, simulate=None,
            depth=None, seed=None, coverage=False, deadlock=False, extra=(), heap="8g",
            keep_stdout=False, dfs=False, cfg_text=None):
    """Run TLC on SPEC_DIR/<module>.tla with SPEC_DIR/<cfg or module>.cfg
    (or with the literal configuration text cfg_text)."""
    cfg = cfg or module
    meta = tempfile.mkdtemp(prefix="tlcmeta_")
    if cfg_text is not None:
        cfg = os.path.join(meta, "gen")
        with open(cfg + ".cfg", "w") as fh:
            fh.write(cfg_text)
    cmd = ["java", "-XX:+UseParallelGC", "-Xmx" + heap, "-Xss64m"]
    if dfs:
        cmd.append("-Dtlc2.tool.queue.IStateQueue=StateDeque")
    cmd += ["-cp", JAR, "tlc2.TLC", "-workers", str(workers), "-metadir", meta,
            "-noGenerateSpecTE", "-config", cfg + ".cfg"]
    if not deadlock:
        cmd.append("-deadlock")  # in TLC, -deadlock DISABLES deadlock checking
    if coverage:
        cmd += ["-coverage", "1"]
    if simulate is not None:
        cmd += ["-simulate", "num=%d" % simulate]
        if depth is not None:
            cmd += ["-depth", str(depth)]
    if seed is not None:
        cmd += ["-seed", str(seed)]
    cmd += list(extra)
    cmd.append(module + ".tla")
    e = dict(os.environ)
    e.pop("JAVA_TOOL_OPTIONS", None)
    if env:
        e.update({k: str(v) for k, v in env.items()})
    res = TLCResult()
    res.cmd = " ".join(cmd)
    t0 = time.time()
    try:
        p = subprocess.run(cmd, cwd=SPEC_DIR, env=e, stdout=subprocess.PIPE,
                           stderr=subprocess.STDOUT, timeout=timeout)
    except subprocess.TimeoutExpired:
        shutil.rmtree(meta, ignore_errors=True)
        raise TLCError("TLC timed out after %ss: %s" % (timeout, res.cmd))
    finally:
        pass
    shutil.rmtree(meta, ignore_errors=True)
    res.wall_s = time.time() - t0
    out = p.stdout.decode("utf-8", "replace")
    if keep_stdout:
        res.stdout = out
    _parse(out, res)
    if not res.finished and res.violation is None:
        tail = "\n".join(out.splitlines()[-40:])
        raise TLCError("TLC did not finish cleanly (%s):\n%s" % (res.cmd, tail))
    return res


_COV_RE = re.compile(r'^<(\w+) line (\d+), col (\d+) to line (\d+), col (\d+) of module (\w+)>: (\d+):(\d+)')


def _balanced(txt):
    """<< and >> balanced outside string literals?"""
    depth = 0
    i = 0
    n = len(txt)
    instr = False
    while i < n:
        c = txt[i]
        if instr:
            if c == "\\":
                i += 2
                continue
            if c == '"':
                instr = False
        else:
            if c == '"':
                instr = True
            elif txt.startswith("<<", i):
                depth += 1
                i += 2
                continue
            elif txt.startswith(">>", i):
                depth -= 1
                i += 2
                continue
        i += 1
    return depth <= 0 and not instr


_STR_RE = re.compile(r'"((?:[^"\\]|\\.)*)"')


def _tuple_record(txt, res):
    """One printed tuple <<"TAG", ...>> (possibly wrapped over several lines by TLC's pretty printer)."""
    strs = _STR_RE.findall(txt)
    if not strs:
        return True
    tag = strs[0]
    if tag == "EMIT":
        res.emits.append(json.loads(_unescape_tla_string(strs[1])))
    elif tag == "UNIV":
        res.univ = json.loads(_unescape_tla_string(strs[1]))
    elif tag == "ACCEPT":
        m = re.search(r'"ACCEPT"\s*,\s*(\d+)', txt)
        res.accepts.add(int(m.group(1)))
    elif tag == "RES":
        m = re.search(r'"RES"\s*,\s*(\d+)', txt)
        res.res[int(m.group(1))] = strs[1:]
    elif tag == "NOTE":
        res.notes.append(txt)
    else:
        return True
    return True


def _parse(out, res):
    lines = out.splitlines()
    i = 0
    n = len(lines)
    bad = 0
    while i < n:
        ln = lines[i]
        if ln.startswith("<<"):
            buf = ln
            j = i
            while not _balanced(buf) and j + 1 < n and j - i < 400:
                j += 1
                buf += " " + lines[j].strip()
            try:
                _tuple_record(buf, res)
            except (ValueError, AttributeError, IndexError):
                bad += 1
            i = j
        elif ln.startswith("Error:"):
            if res.violation is None:
                m = re.match(r"Error: Invariant (\S+) is violated", ln)
                m2 = re.match(r"Error: Action property (\S+) is violated", ln)
                m3 = re.match(r"Error: Temporal properties were violated", ln)
                if m or m2 or m3:
                    name = (m or m2).group(1) if (m or m2) else "temporal"
                    j = i + 1
                    buf = []
                    while j < n and not re.match(r"^\d+ states generated", lines[j]) \
                            and not lines[j].startswith("Finished in"):
                        buf.append(lines[j])
                        j += 1
                    res.violation = {"kind": "invariant" if m else "property", "name": name,
                                     "trace_text": "\n".join(buf)}
                elif "Deadlock reached" in ln:
                    res.violation = {"kind": "deadlock", "name": "deadlock", "trace_text": ""}
                elif "The behavior up to this point" in ln or "The following behavior" in ln:
                    pass
                else:
                    tail = "\n".join(lines[i:i + 30])
                    raise TLCError("TLC error:\n" + tail)
        else:
            m = re.match(r"^(\d+) states generated, (\d+) distinct states found", ln)
            if m:
                res.generated = int(m.group(1))
                res.distinct = int(m.group(2))
            m = re.match(r"^The depth of the complete state graph search is (\d+)", ln)
            if m:
                res.depth = int(m.group(1))
            if ln.startswith("Finished in") or ln.startswith("Model checking completed") \
                    or "Simulation" in ln and "completed" in ln:
                res.finished = True
            m = _COV_RE.match(ln)
            if m:
                key = m.group(1)
                d, g = int(m.group(7)), int(m.group(8))
                od, og = res.coverage.get(key, (0, 0))
                res.coverage[key] = (od + d, og + g)
            m = re.match(r"^The number of states generated: (\d+)", ln)
            if m:
                res.generated = int(m.group(1))
        i += 1
    if bad:
        raise TLCError("%d emitted lines could not be parsed" % bad)


def sany_all():
    """Syntax gate over every module (setup_cmd)."""
    failed = []
    for f in sorted(os.listdir(SPEC_DIR)):
        if f.endswith(".tla"):
            p = subprocess.run(["java", "-cp", JAR, "tla2sany.SANY", f], cwd=SPEC_DIR,
                               stdout=subprocess.PIPE, stderr=subprocess.STDOUT)
            out = p.stdout.decode("utf-8", "replace")
            if p.returncode != 0 or "*** Errors" in out or "Fatal errors" in out \
                    or "Could not find module" in out:
                failed.append((f, out[-2000:]))
    return failed
