#!/bin/sh
# thorough sweep from a snapshot: VERIF_REPO points at the snapshot of /repo when given
cd "$(dirname "$0")/.."
[ -n "$VP_RUN_REPO" ] && export VERIF_REPO="$VP_RUN_REPO"
export VERIF_EVIDENCE_DIR="$PWD/evidence_sweep" VERIF_REPLAY_DIR="$PWD/replays_sweep"
mkdir -p "$VERIF_EVIDENCE_DIR"
tier=${1:-thorough}
for p in ${2:-C11 C17 C15 C20 C13 C19 C16 C09 C05 C06 C12 C07 C10 C08 C18 C02 C04 C03 C14 C01}; do
  s=$(date +%s)
  out=$(./check $p --tier $tier 2>&1)
  rc=$?
  e=$(date +%s)
  echo "$p rc=$rc $((e-s))s mem=$(free -g | awk 'NR==2{print $3}')G $(echo "$out" | grep '^OK\|^VIOLATION\|^MACHINERY\|^failing' | head -2 | cut -c1-200 | tr '\n' ' ')"
done
