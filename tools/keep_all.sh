#!/bin/sh
# confirm and keep every seeded change under $1 (default /tmp/mut): verify in a scratch worktree, then apply to /repo, run
# the owning property's quick check, undo - sequential, /repo must not be used by anything else meanwhile.
# $2 = offset added to the change number in the kept name (round 2: 2, so m1 -> <ID>-m3)
SRC=${1:-/tmp/mut}; OFF=${2:-0}
cd /verif
for pid in C01 C02 C03 C04 C05 C06 C07 C08 C09 C10 C11 C12 C13 C14 C15 C16 C17 C18 C19 C20; do
  for k in 1 2; do
    d=$SRC/$pid/m$k
    [ -f $d/patch.diff ] || continue
    name=$pid-m$((k + OFF))
    also=""
    [ -f $d/also ] && also=$(cat $d/also)
    echo "== $name"
    tools/mutant.py keep $d $pid $name quick $also 2>&1 | tail -2 | cut -c1-400
    git -C /repo status --porcelain --untracked-files=no | head -3
  done
done
