#!/bin/sh
# confirm and keep every seeded change under /tmp/mut (verify in a scratch worktree, then apply to /repo, run the owning
# property's quick check, undo) - sequential, /repo must not be used by anything else meanwhile
cd /verif
for pid in C01 C02 C03 C04 C05 C06 C07 C08 C09 C10 C11 C12 C13 C14 C15 C16 C17 C18 C19 C20; do
  for m in m1 m2; do
    d=/tmp/mut/$pid/$m
    [ -f $d/patch.diff ] || continue
    echo "== $pid-$m"
    tools/mutant.py keep $d $pid $pid-$m 2>&1 | tail -2 | cut -c1-400
    git -C /repo status --porcelain --untracked-files=no | head -3
  done
done
