#!/venv/bin/python
"""Development helper: run the owning property's check against every seeded change in parallel,
each in its own scratch worktree of /repo's HEAD (VERIF_REPO), evidence redirected away from /verif.
  tools/mutants_all.py <dir-with-<ID>/m<k>/patch.diff> [tier] [only...]      only: C09 | C09/m2 | C03/m1@C15 (run C15's check)
  MUT_VERIF=<copy of /verif> runs the checks of that copy (so that /verif can be edited meanwhile)
(The recorded confirmation of a kept change uses tools/mutant.py keep, which applies it to /repo itself.)"""
import json, os, shutil, subprocess, sys, tempfile
from concurrent.futures import ThreadPoolExecutor

def one(root, pid, m, tier, check_pid=None):
    d = os.path.join(root, pid, m)
    wt = tempfile.mkdtemp(prefix="mwt_", dir="/tmp"); os.rmdir(wt)
    ev = tempfile.mkdtemp(prefix="mev_", dir="/tmp")
    try:
        r = subprocess.run("git -C /repo worktree add --detach %s HEAD" % wt, shell=True, capture_output=True)
        r = subprocess.run("git -C %s apply %s/patch.diff" % (wt, d), shell=True, capture_output=True)
        if r.returncode != 0:
            return pid, m, "NOAPPLY", r.stderr.decode()[:200]
        env = dict(os.environ, VERIF_REPO=wt, VERIF_EVIDENCE_DIR=ev, VERIF_REPLAY_DIR=ev)
        r = subprocess.run("cd %s && ./check %s --tier %s" % (os.environ.get("MUT_VERIF", "/verif"), check_pid or pid, tier), shell=True, capture_output=True, env=env)
        out = r.stdout.decode()
        lines = [l for l in out.splitlines() if l.startswith(("VIOLATION", "failing clause", "OK ", "MACHINERY", "KNOWN"))]
        return pid + ("@" + check_pid if check_pid else ""), m, {0: "MISSED", 1: "DETECTED", 2: "MACHINERY"}.get(r.returncode, str(r.returncode)), " | ".join(lines)[:400]
    finally:
        subprocess.run("git -C /repo worktree remove --force %s" % wt, shell=True, capture_output=True)
        shutil.rmtree(wt, ignore_errors=True); shutil.rmtree(ev, ignore_errors=True)

def main():
    root = sys.argv[1]; tier = sys.argv[2] if len(sys.argv) > 2 else "quick"
    only = sys.argv[3:]
    sel = {}
    for o in only:
        o, _, chk = o.partition("@")
        pid, _, m = o.partition("/")
        sel.setdefault(pid, []).append((m or None, chk or None))
    jobs = []
    for pid in sorted(os.listdir(root)):
        if not os.path.isdir(os.path.join(root, pid)) or (only and pid not in sel): continue
        if not os.path.exists("/verif/props/%s.py" % pid): continue
        for m in sorted(os.listdir(os.path.join(root, pid))):
            if os.path.exists(os.path.join(root, pid, m, "patch.diff")):
                if not only:
                    jobs.append((pid, m, None))
                for (mm, chk) in sel.get(pid, []):
                    if mm in (None, m):
                        jobs.append((pid, m, chk))
    with ThreadPoolExecutor(int(os.environ.get('MUT_JOBS', '3'))) as ex:
        for res in ex.map(lambda j: one(root, j[0], j[1], tier, j[2]), jobs):
            print(*res, flush=True)

if __name__ == "__main__":
    main()
