#!/venv/bin/python
"""Confirm a seeded change and run checks against it.

  tools/mutant.py verify <dir>            # dir has patch.diff + demo.py: confirm in a scratch worktree that
                                          # the patch applies, the 40 tests pass, demo fails with / passes without
  tools/mutant.py run <dir> <ID> [tier]   # apply to /repo, run ./check <ID>, undo straight afterwards
"""
import json, os, shutil, subprocess, sys, tempfile

PY = "/venv/bin/python"

def sh(cmd, **kw):
    return subprocess.run(cmd, shell=True, stdout=subprocess.PIPE, stderr=subprocess.STDOUT, **kw)

def verify(d):
    d = os.path.abspath(d)
    wt = tempfile.mkdtemp(prefix="mutwt_", dir="/tmp")
    os.rmdir(wt)
    out = {}
    try:
        r = sh("git -C /repo worktree add --detach %s HEAD" % wt)
        assert r.returncode == 0, r.stdout
        env = dict(os.environ, PYTHONPATH=wt, PYTHONDONTWRITEBYTECODE="1")
        r = sh("%s %s/demo.py" % (PY, d), env=env, cwd=d)
        out["demo_without"] = r.returncode
        r = sh("git -C %s apply %s/patch.diff" % (wt, d))
        out["applies"] = r.returncode == 0
        if out["applies"]:
            r = sh("cd %s && %s -m pytest -q -p no:cacheprovider tests 2>&1 | tail -3" % (wt, PY), env=env)
            out["tests"] = r.stdout.decode()[-200:].strip()
            out["tests_pass"] = " passed" in out["tests"] and "failed" not in out["tests"]
            r = sh("%s %s/demo.py" % (PY, d), env=env, cwd=d)
            out["demo_with"] = r.returncode
            out["demo_with_out"] = r.stdout.decode()[-400:]
    finally:
        sh("git -C /repo worktree remove --force %s" % wt)
        shutil.rmtree(wt, ignore_errors=True)
    out["confirmed"] = bool(out.get("applies") and out.get("tests_pass") and out.get("demo_without") == 0
                            and out.get("demo_with") not in (0, None))
    print(json.dumps(out, indent=1))
    return 0 if out["confirmed"] else 1

def run(d, pid, tier="quick"):
    d = os.path.abspath(d)
    st = sh("git -C /repo status --porcelain --untracked-files=no").stdout.decode().strip()
    assert not st, "/repo has uncommitted changes: " + st
    r = sh("git -C /repo apply %s/patch.diff" % d)
    if r.returncode != 0:
        print("patch does not apply to /repo:", r.stdout.decode()); return 3
    try:
        r = sh("cd /verif && ./check %s --tier %s" % (pid, tier))
        txt = r.stdout.decode()
        print(txt[-3000:])
        print("exit", r.returncode)
        return r.returncode
    finally:
        sh("git -C /repo checkout -- .")

def run_wt(d, pid, tier="quick"):
    """like run(), but on a scratch worktree of /repo's HEAD with the patch applied (VERIF_REPO): several can run at once"""
    d = os.path.abspath(d)
    wt = tempfile.mkdtemp(prefix="mutwt_", dir="/tmp")
    os.rmdir(wt)
    ev = tempfile.mkdtemp(prefix="mutev_", dir="/tmp")
    try:
        r = sh("git -C /repo worktree add --detach %s HEAD" % wt)
        assert r.returncode == 0, r.stdout
        r = sh("git -C %s apply %s/patch.diff" % (wt, d))
        if r.returncode != 0:
            print("patch does not apply:", r.stdout.decode()); return 3
        env = dict(os.environ, VERIF_REPO=wt, VERIF_EVIDENCE_DIR=ev, VERIF_REPLAY_DIR=ev)
        r = sh("cd %s && ./check %s --tier %s" % (os.environ.get("MUT_VERIF", "/verif"), pid, tier), env=env)
        print(r.stdout.decode()[-3000:])
        print("exit", r.returncode)
        return r.returncode
    finally:
        sh("git -C /repo worktree remove --force %s" % wt)
        shutil.rmtree(wt, ignore_errors=True)
        shutil.rmtree(ev, ignore_errors=True)


RUNNER = {"repo": None, "wt": None}


def keep(d, pid, name, tier="quick", *also, how="repo"):
    """verify + run + copy into /verif/seeded/<name>/ with what was run recorded in meta.json"""
    import io, contextlib
    buf = io.StringIO()
    with contextlib.redirect_stdout(buf):
        rc = verify(d)
    ver = json.loads(buf.getvalue())
    if rc != 0:
        print("NOT CONFIRMED", json.dumps(ver)); return 1
    buf = io.StringIO()
    runner = run if how == "repo" else run_wt
    ran_as = ("git -C /repo apply patch.diff; ./check %s --tier %s; git -C /repo checkout -- ." if how == "repo" else
              "scratch worktree of /repo HEAD + git apply patch.diff; VERIF_REPO=<worktree> ./check %s --tier %s (evidence redirected); worktree removed")
    with contextlib.redirect_stdout(buf):
        rc = runner(d, pid, tier)
    txt = buf.getvalue()
    dst = os.path.join("/verif/seeded", name)
    os.makedirs(dst, exist_ok=True)
    for f in ("patch.diff", "demo.py"):
        shutil.copy(os.path.join(d, f), os.path.join(dst, f))
    try:
        meta = json.load(open(os.path.join(d, "meta.json")))
    except Exception:
        meta = {}
    lines = [l for l in txt.splitlines() if l.startswith(("VIOLATION", "failing clause", "OK ", "MACHINERY", "KNOWN"))]
    meta.update({"property": pid, "confirmed_by_builder": ver,
                 "ran": ["tools/mutant.py verify (scratch worktree: git apply, 40 pinned tests, demo with/without)",
                         ran_as % (pid, tier)],
                 "check_exit": rc, "check_output": lines[:6], "detected": rc == 1})
    for other in also:       # checks of other properties run against the same change
        buf = io.StringIO()
        with contextlib.redirect_stdout(buf):
            rc2 = runner(d, other, tier)
        l2 = [l for l in buf.getvalue().splitlines() if l.startswith(("VIOLATION", "failing clause", "OK ", "MACHINERY", "KNOWN"))]
        meta["ran"].append(ran_as % (other, tier))
        meta.setdefault("other_checks", {})[other] = {"check_exit": rc2, "check_output": l2[:6], "detected": rc2 == 1}
    json.dump(meta, open(os.path.join(dst, "meta.json"), "w"), indent=1)
    print(name, "detected" if rc == 1 else "MISSED (exit %d)" % rc, "|", "; ".join(lines[:2])[:300],
          "|", {k: x["detected"] for k, x in meta.get("other_checks", {}).items()})
    return 0

if __name__ == "__main__":
    if sys.argv[1] == "keep":
        sys.exit(keep(*sys.argv[2:]))
    if sys.argv[1] == "keepwt":
        sys.exit(keep(*sys.argv[2:], how="wt"))
    if sys.argv[1] == "verify":
        sys.exit(verify(sys.argv[2]))
    else:
        sys.exit(run(*sys.argv[2:]))
