#!/venv/bin/python
"""Regenerate MANIFEST.json from the table below (one source of truth for the claimed checks)."""
import json, os
HERE = os.path.dirname(os.path.dirname(os.path.abspath(__file__)))

PK_NOTE = ("Exhaustive only inside the stated bounds (small universes of declarations, inputs over 2-4 letter alphabets up to the "
           "declared length, start offsets); beyond them seeded random declarations. Regex delimiters limited to the modelled "
           "library; Int widths <= 3 bytes in the packet machine (wider: C05). Trusted: TLC, the JSON exchange, the harness's "
           "observation points (TracedBytes, TracedFragments, get_fields wrappers).")
PK_TECH = "TLA+ model checking (TLC) of the Packet.tla unpack/pack machines + spec-to-code replay + TLC trace validation of recorded executions"


def pk(text, design):
    return dict(text=text, note=PK_NOTE, technique=PK_TECH, design=design)


CLAIMED = {
 "C11": dict(
    text="TLC explores every history of insert/append/cursor-set on the Fragments model (reference sparse array and the implemented bisect algorithm side by side) inside small bounds and checks the property as invariants/action properties; the specification is bound to bisturi/fragments.py in both directions: every maximal TLC history is replayed on the real class (raise, cursor, tobytes after each step) and seeded random histories of the real class are validated by TLC against Trace_Fragments with the invariants re-evaluated at every step.",
    note="Exhaustive only inside the bounds (<=4 operations, positions 0..5, chunks <=2 bytes over 2 letters); beyond them random recorded histories. Trusted: TLC, the JSON exchange, Python's bytes.",
    technique="TLA+ model checking (TLC) of Fragments.tla + spec-to-code replay + code-to-spec trace validation",
    design="5.11"),
 "C01": pk("TLC runs the unpack machine and then the pack machine of Packet.tla on every declaration of U_C01 x every input x start offset and checks C01_Bytes / C01_Fill / C01_Len / C01_OverlapRaises / C01_RaiseOnlyOnOverlap (PacketProps.tla) on the model; every terminal behaviour is replayed on real classes (generic and generated code); every execution that differs from the specification anywhere is recorded (read log, write log, output) and TLC evaluates the same C01 predicates on the RECORDED observations; random declarations likewise.", "5.1"),
 "C04": pk("The unpack machine logs every slice (requested vs obtained); TLC checks C04_Exact on the model for U_C06, U_C07_24, U_C12 x all inputs (which contain every truncation of every valid encoding inside the bound); the real read log (TracedBytes) of every differing or random execution is judged by TLC: C04_Exact on the recorded slices and C04_OverAccept (the code accepted an input on which the specification's unpack fails).", "5.4"),
 "C06": pk("Data semantics (every sizing mode, include/consume, search window, overlapping marker prefixes, regex library incl. context-sensitive patterns, end-of-string) are the ScanMarker/ScanRegex/ReadSized actions of Packet.tla; TLC enumerates U_C06 x all inputs; every behaviour is replayed; values, end offset, pack output of the real classes must equal the specification's (the property determines them uniquely).", "5.6"),
 "C08": pk("Repeated/optional/reference control flow is the frame machine of Packet.tla (count, until seeing the list so far, when, selectors, shared option tables, nesting to depth 3); TLC enumerates U_C08 x all inputs; replay compares lists, None, nested packets, end offsets and re-serialisation; executions differing are judged on the recorded run (history-dependent faults included).", "5.8"),
 "C10": pk("Move/alignment arithmetic is MoveTarget/PadTo of Packet.tla, used by both machines; TLC checks C10_Same (every described field ends at the same relative position on input and output) and C10_Least (least padding < a) on U_C10 (modifier x reference x const/field/callable target, nesting, class align, per-element alignment, backward placement); field events (cursor after every described field, both directions) of the real classes are compared and judged.", "5.10"),
 "C12": pk("Fail/Unwind of Packet.tla predict the fields_stack (innermost entry = failing field, its class, the offset where it began; one entry per enclosing packet frame) for every failing input of U_C12/U_C10_Flat; replay compares phase flag, the full stack under generic AND generated code (Codegen.tla maps an entry to the struct block that contains the field: name `between 'a' and 'b'`, offset of the block), descriptor hooks failing before pack / after unpack at the root and nested, str() totality, silent=True -> None, non-bytes -> ValueError; over-acceptance of failing inputs is owned too.", "5.12"),
 "C14": pk("MC_Context.tla runs two unpack machines in lockstep on (raw, 0) and (pre+raw+post, len(pre)) for every declaration without absolute positioning x every input x pre/post over the alphabet; TLC checks cursor lockstep, equal values / shifted end and shifted error offsets, with the open-ended-scan exemption decided by the specification; every pair is replayed on real classes and differing pairs are judged by TLC on the recorded pair.", "5.14"),
 "C02": pk("MC_Values.tla chooses a declaration and a complete value assignment (Values.tla: per-kind domains with boundary integers, empty and maximal lists, absent optionals, nested packets), packs it with the pack machine and re-parses the output with the unpack machine; ConsistentPkt is the structural definition of 'values that satisfy the declaration'; TLC checks Inv_C02_Reparse, Inv_C02_Layout (independent concatenation of encodings), Inv_C02_PosReparse for positioned fields. Replay builds the packet by constructor and by attribute assignment, packs, re-parses, calls assert_consistency(); differing executions are judged by TLC (Trace_Values).", "5.2"),
 "C03": pk("The same declaration is compiled under all 16 combinations of the four code-generation options; TLC enumerates U_C03 (runs of fixed-size fields with/without struct code, mixed byte order/signedness, variable fields, bit groups, a descriptor on a vectorised field) x all inputs; each behaviour is executed under all 16 settings, which must agree with each other; a disagreeing pair is recorded and TLC evaluates C03_SameU/C03_SameP on it; the value universes are packed under all 16 settings too.", "5.3"),
 "C05": dict(text="IntCodec.tla is the two's-complement codec on base-256 digit sequences (no 32-bit limit); TLC checks the codec laws (encode-after-decode identity, range, endianness, sign relation) on all 65,536 two-byte patterns, lane-exhaustively for widths 3,4,5,8,9,16 and on the five endianness spellings x class default; every case is executed on the real Int field reached six ways (direct, in a vectorised pair, strictly inside a vectorised run, repeated, optional, selected by a Ref) under generic and generated code, including rejection of max+1 / min-1 / non-integers; random widths up to 32 bytes are recorded and checked by TLC (Trace_IntCodec).",
             note="This is the 'transcribe the function, one implementation test per transition' use of TLC: the specification is the oracle and the enumerator. Exhaustive for widths <= 2, lane-exhaustive above. Little-endian host asserted for 'local'.",
             technique="TLA+ specification of the codec on digit sequences checked by TLC + spec-to-code replay + TLC trace validation", design="5.5"),
 "C07": pk("(a) unpack: MC_Packet over all 128 compositions of 8 bits x all 256 byte values, 24-bit groups, embedded/nested runs, little-endian class default; (b) pack: MC_Values with every member value in {0,1,2^w-1,2^w,2^w+1,-1,-2^w}: Inv_C07_Isolated (output = layout with each value mod 2^w) and a second pack after re-assigning one member; (c) class definition: MC_BitsReject, runs whose widths do not sum to a multiple of 8 are rejected (ByteBoundaryError), run detection on the described list. All replayed on real classes.", "5.7"),
 "C09": dict(text="Deferred.tla: syntax trees -> Build (operator-method rules incl. reflected and mirrored dispatch) -> Compile (postfix) -> stack machine, on terms of the free algebra; TLC enumerates every well-formed tree up to a bound on operator nodes (every call form of chooses / if_true_then_else) and checks Inv_C09_Result and Inv_C09_Depth; every tree is built with the real operators on real field objects and executed by the real deferred.py, observed per instruction (operands, result) and compared with TLC's term and with eager Python; every operator of the tables is substituted on concrete operand samples (same value or same exception type, one compiled callable re-used across samples); random larger trees are recorded and validated by TLC (Trace_Deferred).",
             note="Structural half exhaustive up to 3 (quick) / 4 (thorough) operator nodes; concrete half on operand samples. Trusted: TLC, Python's own operator dispatch as the eager oracle.",
             technique="TLA+ model checking (TLC) of the expression compiler/stack machine + spec-to-code replay + TLC trace validation", design="5.9"),
 "C19": pk("Values.tla defines DeclaredDefault per field kind and Construct(cls, K); MC_Values enumerates every subset of fields overridden by keyword x override values over U_C19 (every field kind and default form, nested prototypes with their own defaults and overrides, mutable defaults); replay compares every attribute of Cls(**K), checks that two constructions share no mutable object, and that pack() is the layout of those values; TLC (Trace_Values) judges differing executions.", "5.19"),
 "C15": dict(text="CodeCache.tla (sequential fragment): successive definitions of same-named classes over four declarations (two of them generating source of the same length, one under other options), from EVERY initial cache content (absent / complete of any declaration / any torn prefix / bytecode absent, valid or stale-but-stamp-equal), bytecode on or off; TLC checks that every definition installs its own code and that a cookie match implies identical code. Real side: all pairs and sampled triples of definitions incl. generation off/pack-only/changed options, in one process or a new process each, with all cache writes forced into the same mtime second or not, from seeded cache contents; after each definition the class and the classes defined earlier in the process are used on a discriminating input; plus two live definitions of different declarations interleaved at every pair of points.",
             note="Exhaustive in the model within 2 (3) definitions; real sequences are enumerated (pairs) / sampled (triples). Stamp equality forced with os.utime. Trusted: TLC, the process harness (bind/cache_harness.py).",
             technique="TLA+ model checking (TLC) of CodeCache.tla + real definitions in real processes on a real cache directory", design="5.15"),
 "C16": dict(text="CodeCache.tla: processes x file system x crashes; TLC checks Inv_C16_Safe over every initial cache content, every interleaving of the file-system steps of two (three) processes defining identical or different same-named classes and a crash at every step. Behaviours of the specification (TLC -simulate with history) are forced action by action on real processes sharing a real cache directory, comparing the abstracted file system (owner by cookie, shape by compiling the content, bytecode present) after every action and every process's outcome; every crash point of a real cache update (between all file-system calls and after every k-th byte written) is followed by fresh definitions; all 2-pre-emption interleavings of two live definitions are executed.",
             note="Exhaustive in the model; on real processes: TLC-simulated behaviours + enumerated crash points and context-bounded schedules. The pinned protocol is kept in the model as a switch (Repaired = FALSE) and is shown to violate the invariant. Trusted: TLC, the process harness.",
             technique="TLA+ model checking (TLC) of CodeCache.tla + TLC behaviours forced on real processes (schedules, crash points)", design="5.16"),
 "C17": dict(text="MC_Auto.tla: the descriptor's enabled flag, hidden field and tracked field under every history of New/SetTracked/SetDescribed/DelDescribed/Unpack/Pack for AutoLength of a byte string, AutoLength of a repeated field and Auto(fn); TLC checks Inv_C17_Read against the ghost 'value assigned since the last delete/construction/parse', Inv_C17_Pack and Prop_C17_PackKeepsRead exhaustively up to the history bound; every maximal history is executed on real packets under generic and generated code comparing the full projected state after every operation (attribute read, hidden slot, tracked value, pack result, no __dict__); longer random histories are recorded and validated by TLC (Trace_Auto).",
             note="Exhaustive up to 6 (7) operations in the model, 3 (4) on real objects; random histories of 6..16 operations beyond. Trusted: TLC, the JSON exchange.",
             technique="TLA+ model checking (TLC) of MC_Auto.tla + spec-to-code replay + TLC trace validation", design="5.17"),
 "C20": pk("MC_Values over U_C20 (declarations with at/shift/aligned, the class-wide align option, Em, a described field, nested packets, lists, optionals, run-time selected references): p is built from K, q like p with exactly one field re-assigned (every field, every domain value, in place for default-constructed mutable values) or none; on real objects ==, !=, comparison with itself / None / another class, repr; two packets parsed from the same bytes; a parsed packet against a constructed, never-packed one; TLC (Trace_Values) evaluates C20_Total / C20_Structural / C20_ParsedEqual on the recorded visible values and results.", "5.20"),
 "C13": dict(text="Session.tla / MC_Session.tla: up to 2 (3) live packets of related classes (shared sub-packet class, list defaults, a prototype with its own defaults; a regex-delimited body; a selector expression), histories of New / Unpack / SetAttr / append-in-place / assign-into-nested / Pack performed by the Packet.tla machines, with the field-object registers as the only state that outlives an operation; TLC checks Prop_C13_Bystander and Prop_C13_PackPure; every maximal history is executed on real, freshly defined classes and after EVERY operation the values and pack() of ALL live packets and the sharing of mutable sub-objects are compared; two threads parsing/serialising their own packets are interleaved at every pair of field boundaries.",
             note="Exhaustive up to 3-5 operations; threads at field-step granularity (argument: packets of different threads share only field-object registers). Known findings F2 (remembered regex delimiter) and F3 (selector hands out one instance) are named deviations of the model.",
             technique="TLA+ model checking (TLC) of session histories over the Packet.tla machines + spec-to-code replay + forced thread schedules", design="5.13"),
 "C18": dict(text="Regexp.tla: Render (the token list the pack_regexp methods of Int, Data and Bits assemble for a pattern packet whose fields are literals or Any) and MatchesPrefix (what re.match decides for it); MC_Regexp: for every flat declaration of U_C18 (every sizing mode, kept regex delimiters, bit runs with fixed low / mixed bits, alphabets of regex metacharacters) x every input that unpacks x every subset of fields fixed to the parsed values, the rendered expression matches the input and every derived candidate that unpacks to a packet equal to the pattern; the real as_regular_expression() is built for every case (must not fail), its match() compared with the specification's matcher, and soundness evaluated on the code itself (unpack() == pattern implies match; filter() with and without the pre-filter agree).",
             note="Flat declarations over Int/Bits/Data only (other field kinds have no pack_regexp); regex delimiters from the modelled library. Known finding F9c (== on an Any-valued field inside a size expression) is a named deviation.",
             technique="TLA+ model checking (TLC) of the regexp renderer and matcher + spec-to-code replay against the real re engine", design="5.18"),
}

NOT_YET = {}

def main():
    props = [json.loads(l) for l in open(os.path.join(HERE, "properties.jsonl"))]
    checks = []
    na = []
    for p in props:
        pid = p["id"]
        if pid in CLAIMED:
            c = CLAIMED[pid]
            checks.append({
                "property_id": pid,
                "quick_cmd": "./check %s --tier quick" % pid,
                "thorough_cmd": "./check %s --tier thorough" % pid,
                "evidence_file": "evidence/%s.json" % pid,
                "replay_cmd_template": "./check %s --replay {path}" % pid,
                "engine": "tlc",
                "level_claimed": {"category": "model_checking", "text": c["text"], "design_ref": "DESIGN.md " + c["design"]},
                "level_note": c["note"],
                "technique": c["technique"],
            })
        else:
            na.append({"property_id": pid, "reason": NOT_YET.get(pid, "check under construction in this round (specification module not yet bound to the code); not claimed until its quick and thorough commands run clean - see DESIGN.md section 8")})
    m = {
        "version": 1,
        "setup_cmd": "./check setup",
        "hooks": {"guard": "BISTURI_VERIF", "enable": "no source hooks: all observation points are installed from the harness's own processes (DESIGN.md 2.3); the guard name is reserved and exported by the checks",
                  "baseline_off_cmd": "cd /repo && /venv/bin/python -m pytest -ra -q -p no:cacheprovider --timeout=900 --continue-on-collection-errors",
                  "source_commits": [], "add_only": True},
        "engines": [{"name": "tlc", "path": "/opt/veriftools/tla/tla2tools.jar", "serves_properties": sorted(CLAIMED),
                     "kind_free_text": "TLA+ specifications under /verif/spec checked with TLC 1.8 (exhaustive small scope, simulation, trace validation); Python harness under /verif/lib, /verif/bind, /verif/props binds them to /repo"}],
        "checks": checks,
        "notes": "Single entry point ./check <ID> --tier quick|thorough. Exit 0 held / 1 VIOLATION / 2 machinery failure. known_findings.json lists recorded genuine defects.",
        "not_applicable": na,
    }
    json.dump(m, open(os.path.join(HERE, "MANIFEST.json"), "w"), indent=1)
    print("claimed:", sorted(CLAIMED), "not claimed:", len(na))

if __name__ == "__main__":
    main()
