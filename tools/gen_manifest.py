#!/venv/bin/python
"""Regenerate MANIFEST.json from the table below (one source of truth for the claimed checks)."""
import json, os
HERE = os.path.dirname(os.path.dirname(os.path.abspath(__file__)))

CLAIMED = {
 "C11": dict(
    text="TLC explores every history of insert/append/cursor-set on the Fragments model (reference sparse array and the implemented bisect algorithm side by side) inside small bounds and checks the property as invariants/action properties; the specification is bound to bisturi/fragments.py in both directions: every maximal TLC history is replayed on the real class (raise, cursor, tobytes after each step) and seeded random histories of the real class are validated by TLC against Trace_Fragments with the invariants re-evaluated at every step.",
    note="Exhaustive only inside the bounds (<=4 operations, positions 0..5, chunks <=2 bytes over 2 letters); beyond them random recorded histories. Trusted: TLC, the JSON exchange, Python's bytes.",
    technique="TLA+ model checking (TLC) of Fragments.tla + spec-to-code replay + code-to-spec trace validation",
    design="5.11"),
}

NOT_YET = {}

def main():
    props = [json.loads(l) for l in open(os.path.join(HERE, "properties.jsonl"))]
    checks = []
    na = []
    for p in props:
        pid = p["id"]
        if pid in CLAIMED:
            c = CLAIMED[pid]
            checks.append({
                "property_id": pid,
                "quick_cmd": "./check %s --tier quick" % pid,
                "thorough_cmd": "./check %s --tier thorough" % pid,
                "evidence_file": "evidence/%s.json" % pid,
                "replay_cmd_template": "./check %s --replay {path}" % pid,
                "engine": "tlc",
                "level_claimed": {"category": "model_checking", "text": c["text"], "design_ref": "DESIGN.md " + c["design"]},
                "level_note": c["note"],
                "technique": c["technique"],
            })
        else:
            na.append({"property_id": pid, "reason": NOT_YET.get(pid, "check under construction in this round (specification module not yet bound to the code); not claimed until its quick and thorough commands run clean - see DESIGN.md section 8")})
    m = {
        "version": 1,
        "setup_cmd": "./check setup",
        "hooks": {"guard": "BISTURI_VERIF", "enable": "no source hooks: all observation points are installed from the harness's own processes (DESIGN.md 2.3); the guard name is reserved and exported by the checks",
                  "baseline_off_cmd": "cd /repo && /venv/bin/python -m pytest -ra -q -p no:cacheprovider --timeout=900 --continue-on-collection-errors",
                  "source_commits": [], "add_only": True},
        "engines": [{"name": "tlc", "path": "/opt/veriftools/tla/tla2tools.jar", "serves_properties": sorted(CLAIMED),
                     "kind_free_text": "TLA+ specifications under /verif/spec checked with TLC 1.8 (exhaustive small scope, simulation, trace validation); Python harness under /verif/lib, /verif/bind, /verif/props binds them to /repo"}],
        "checks": checks,
        "notes": "Single entry point ./check <ID> --tier quick|thorough. Exit 0 held / 1 VIOLATION / 2 machinery failure. known_findings.json lists recorded genuine defects.",
        "not_applicable": na,
    }
    json.dump(m, open(os.path.join(HERE, "MANIFEST.json"), "w"), indent=1)
    print("claimed:", sorted(CLAIMED), "not claimed:", len(na))

if __name__ == "__main__":
    main()
