#!/venv/bin/python
"""Confirm and keep every seeded change under <src> in parallel (tools/mutant.py keepwt: verification and checks run on
scratch worktrees of /repo's HEAD, so /repo itself is not touched):
  tools/keep_all.py <src> <offset> [jobs]        <src>/<ID>/m<k>/  ->  /verif/seeded/<ID>-m<k+offset>/
A file <src>/<ID>/m<k>/also names other properties whose checks are run against the change too."""
import os, subprocess, sys
from concurrent.futures import ThreadPoolExecutor

def one(job):
    src, pid, k, off = job
    d = os.path.join(src, pid, "m%d" % k)
    name = "%s-m%d" % (pid, k + off)
    if os.path.exists(os.path.join("/verif/seeded", name, "meta.json")) and not os.environ.get("KEEP_REDO"):
        return name + " (kept earlier)"
    also = open(os.path.join(d, "also")).read().split() if os.path.exists(os.path.join(d, "also")) else []
    r = subprocess.run(["/verif/tools/mutant.py", "keepwt", d, pid, name, "quick"] + also, capture_output=True, cwd="/verif")
    return (r.stdout.decode().strip().splitlines() or ["?"])[-1][:300]

def main():
    src, off = sys.argv[1], int(sys.argv[2])
    jobs = [(src, "C%02d" % i, k, off) for i in range(1, 21) for k in (1, 2) if os.path.exists(os.path.join(src, "C%02d" % i, "m%d" % k, "patch.diff"))]
    with ThreadPoolExecutor(int(sys.argv[3]) if len(sys.argv) > 3 else 3) as ex:
        for line in ex.map(one, jobs):
            print(line, flush=True)

if __name__ == "__main__":
    main()
