#!/bin/sh
# run every claimed check at a tier, print one line each
tier=${1:-quick}
cd "$(dirname "$0")/.."
for p in $(/venv/bin/python -c "import json;print(' '.join(c['property_id'] for c in json.load(open('MANIFEST.json'))['checks']))"); do
  s=$(date +%s)
  out=$(./check $p --tier $tier 2>&1)
  rc=$?
  e=$(date +%s)
  echo "$p rc=$rc $((e-s))s $(echo "$out" | grep '^OK\|^VIOLATION\|^MACHINERY\|^failing' | head -2 | cut -c1-160 | tr '\n' ' ')"
done
